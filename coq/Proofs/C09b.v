(* Proofs/C09b.v — the multi-pass read of a complete, link-free OCI archive succeeds for every order of its entries *)
From Coq Require Import List Arith Bool Lia.
From Verif Require Import Model.C09_Import Proofs.C09.
Import ListNotations.

(* ---------- the handler table ---------- *)
Lemma hget_app n h1 h2 : hget n (h1 ++ h2) = match hget n h1 with Some v => Some v | None => hget n h2 end.
Proof. induction h1 as [|[k v] h1 IH]; cbn; [reflexivity|]. destruct (Nat.eqb k n); [reflexivity|exact IH]. Qed.
Lemma hget_hdel_eq n h : hget n (hdel n h) = None.
Proof. unfold hdel. induction h as [|[k v] h IH]; cbn; [reflexivity|]. destruct (Nat.eqb_spec k n); cbn; [exact IH|]. destruct (Nat.eqb_spec k n); [contradiction|exact IH]. Qed.
Lemma hget_hdel_neq n m h : n <> m -> hget m (hdel n h) = hget m h.
Proof.
  intro Hn. unfold hdel. induction h as [|[k v] h IH]; cbn; [reflexivity|]. destruct (Nat.eqb_spec k n) as [->|Hk]; cbn.
  - destruct (Nat.eqb_spec n m); [contradiction|exact IH].
  - destruct (Nat.eqb_spec k m); [reflexivity|exact IH].
Qed.
Lemma hget_some_in n h v : hget n h = Some v -> In (n, v) h.
Proof. induction h as [|[k w] h IH]; cbn; [discriminate|]. destruct (Nat.eqb_spec k n) as [->|Hk]; [intro H; inversion H; now left|intro H; right; now apply IH]. Qed.
Lemma hs_nonempty_get h : h <> [] -> exists n v, hget n h = Some v.
Proof. destruct h as [|[k v] h]; [congruence|]. intros _. exists k, v. cbn. now rewrite Nat.eqb_refl. Qed.

Definition hasb (s : st) (n : nat) : bool := has_h s n.
Lemma has_h_get s n : has_h s n = true <-> exists v, hget n (hs s) = Some v.
Proof. unfold has_h. destruct (hget n (hs s)) as [v|]; split; [eauto|auto|discriminate|intros (v & H); discriminate]. Qed.

(* add_h only ever appends, for a name that is neither processed nor handled *)
Lemma add_h_cases s n v : (add_h s n v = s /\ (memn n (proc s) = true \/ has_h s n = true)) \/
                          (add_h s n v = upd_hs s (hs s ++ [(n, v)]) /\ memn n (proc s) = false /\ has_h s n = false).
Proof. unfold add_h. destruct (memn n (proc s)) eqn:E1; cbn; [left; auto|]. destruct (has_h s n) eqn:E2; [left; auto|right; auto]. Qed.
Lemma add_h_get s n v m : hget m (hs (add_h s n v)) = Some v \/ hget m (hs (add_h s n v)) = hget m (hs s).
Proof.
  destruct (add_h_cases s n v) as [[-> _]|(-> & _ & _)]; [now right|]. cbn [hs upd_hs]. rewrite hget_app.
  destruct (hget m (hs s)); [now right|]. cbn. destruct (Nat.eqb n m); [now left|now right].
Qed.

Definition after_del (n : nat) (s1 : st) : st :=
  mkSt (hdel n (hs s1)) (n :: proc s1) (links s1) (fins s1) (out s1) (bpresent s1) (mpresent s1) (added s1)
       (foundL s1) (foundI s1) (dfound s1) (mans s1) (dcfg s1) (dlayers s1).

Section Complete.
  Variable a : arch.
  Variable q : sel.
  Notation es := (entries a).
  Definition present (n : nat) : Prop := In (EFile n n) es.
  Variables root rname : nat.
  Hypothesis Hfiles : forall e, In e es -> exists n c, e = EFile n c.
  (* an entry whose name is a digest that has a well-formed entry holds that content too (no conflicting duplicates); other files are free *)
  Hypothesis Hself : forall n c, In (EFile n c) es -> 3 <= n -> present n -> c = n.
  Hypothesis Hidx : idx a = [(root, KMan, rname)].
  Hypothesis Hlay : layout_ok a = true.
  Hypothesis Hmark : (exists c, In (EFile 0 c) es) /\ (exists c, In (EFile 1 c) es).
  Hypothesis Hroot : 3 <= root /\ present root /\ content a root <> NBlob.
  Hypothesis Hclosed : forall d, present d -> 3 <= d ->
     match content a d with
     | NIndex ch => forall c k, In (c, k) ch -> 3 <= c /\ present c /\ (k = KMan -> content a c <> NBlob)
     | NImage cfg ls => (forall c, cfg = Some c -> 3 <= c /\ present c) /\ (forall l, In l ls -> 3 <= l /\ present l)
     | NBlob => True
     end.

  Definition ok_handler (n : nat) (h : hk) : Prop :=
    match h with
    | HLayout => n = 0 | HIndex => n = 1 | HDocker => n = 2
    | HMan k _ d => n = d /\ 3 <= d /\ present d /\ (k = KMan -> content a d <> NBlob)
    | HBlob d => n = d /\ 3 <= d /\ present d
    | _ => False
    end.

  Record W (s : st) : Prop := mkW {
    w_links : links s = [];
    w_h : forall n h, hget n (hs s) = Some h -> ok_handler n h /\ ~ In n (proc s);
    w_nodup : NoDup (proc s);
    w_proc : forall n, In n (proc s) -> n = 2 \/ exists c, In (EFile n c) es;
    w_fl : foundL s = negb (has_h s 0);
    w_fi : foundI s = negb (has_h s 1);
    w_two : has_h s 2 = true -> has_h s 0 = true \/ has_h s 1 = true;
    w_pre : has_h s 0 = true \/ has_h s 1 = true -> (forall n, has_h s n = true -> n < 3) /\ (forall n, In n (proc s) -> n < 3) /\ fins s = [];
    w_fins : has_h s 0 = false -> has_h s 1 = false ->
             exists r, fins s = FTag root :: r /\ (forall d, ~ In (FTag d) r) /\ (In root (mans s) \/ has_h s root = true);
    w_root : has_h s 0 = false -> has_h s 1 = false -> has_h s root = true \/ In root (proc s);
    w_rooth : forall h, hget root (hs s) = Some h -> h = HMan KMan false root
  }.

  (* facts about a step that later arguments need *)
  Record Mono (s s2 : st) (n : nat) : Prop := mkMono {
    m_proc : proc s2 = n :: proc s;
    m_keep : forall m, has_h s m = true -> m <> n -> m <> 2 -> has_h s2 m = true;
    m_new : forall m, has_h s2 m = true -> has_h s m = true \/ added s2 = true;
    m_added : added s = true -> added s2 = true;
    m_mans : incl (mans s) (mans s2)
  }.

  Lemma has_h_upd_hs s h n : has_h (upd_hs s h) n = match hget n h with Some _ => true | None => false end.
  Proof. reflexivity. Qed.

  (* adding handlers for a list of children that are all acceptable keeps the table acceptable *)
  Lemma add_h_W_h s n v : (forall m h, hget m (hs s) = Some h -> ok_handler m h /\ ~ In m (proc s)) -> ok_handler n v ->
    forall m h, hget m (hs (add_h s n v)) = Some h -> ok_handler m h /\ ~ In m (proc (add_h s n v)).
  Proof.
    intros Hh Hok m h. destruct (add_h_cases s n v) as [[-> _]|(-> & Hp & Hn)]; [apply Hh|].
    cbn [hs proc upd_hs]. rewrite hget_app. destruct (hget m (hs s)) as [w|] eqn:E; [intro H; inversion H; subst; now apply Hh|].
    cbn. destruct (Nat.eqb_spec n m) as [->|]; [|discriminate]. intro H; inversion H; subst. split; [exact Hok|].
    intro Hin. apply memn_In in Hin. congruence.
  Qed.
  Lemma add_h_other s n v : proc (add_h s n v) = proc s /\ links (add_h s n v) = links s /\ fins (add_h s n v) = fins s /\ out (add_h s n v) = out s /\
    added (add_h s n v) = added s /\ foundL (add_h s n v) = foundL s /\ foundI (add_h s n v) = foundI s /\ mans (add_h s n v) = mans s /\
    bpresent (add_h s n v) = bpresent s /\ mpresent (add_h s n v) = mpresent s.
  Proof. destruct (add_h_cases s n v) as [[-> _]|(-> & _)]; cbn; auto 12. Qed.
  Lemma add_h_keeps s n v m : has_h s m = true -> has_h (add_h s n v) m = true.
  Proof.
    intro H. destruct (add_h_cases s n v) as [[-> _]|(-> & _)]; [exact H|]. rewrite has_h_upd_hs, hget_app.
    apply has_h_get in H as (w & ->). reflexivity.
  Qed.
  Lemma add_h_new s n v m : has_h (add_h s n v) m = true -> has_h s m = true \/ m = n.
  Proof.
    destruct (add_h_cases s n v) as [[-> _]|(-> & _)]; [auto|]. rewrite has_h_upd_hs, hget_app.
    unfold has_h. destruct (hget m (hs s)); [auto|]. cbn. destruct (Nat.eqb_spec n m); [auto|discriminate].
  Qed.

  Definition adds (s : st) (l : list (nat * hk)) : st := fold_left (fun s' p => add_h s' (fst p) (snd p)) l s.
  Lemma adds_spec : forall l s, (forall p, In p l -> ok_handler (fst p) (snd p)) ->
    (forall m h, hget m (hs s) = Some h -> ok_handler m h /\ ~ In m (proc s)) ->
    (forall m h, hget m (hs (adds s l)) = Some h -> ok_handler m h /\ ~ In m (proc (adds s l))) /\
    proc (adds s l) = proc s /\ links (adds s l) = links s /\ fins (adds s l) = fins s /\ out (adds s l) = out s /\ added (adds s l) = added s /\
    foundL (adds s l) = foundL s /\ foundI (adds s l) = foundI s /\ mans (adds s l) = mans s /\
    (forall m, has_h s m = true -> has_h (adds s l) m = true) /\
    (forall m, has_h (adds s l) m = true -> has_h s m = true \/ In m (map fst l)).
  Proof.
    induction l as [|p l IH]; intros s Hl Hh; cbn [adds fold_left map].
    - split; [exact Hh|]. repeat split; auto.
    - fold (adds (add_h s (fst p) (snd p)) l).
      destruct (IH (add_h s (fst p) (snd p))) as (I1 & I2 & I3 & I4 & I5 & I6 & I7 & I8 & I9 & I10 & I11).
      + intros p' Hp'. apply Hl. now right.
      + apply add_h_W_h; [exact Hh|apply Hl; now left].
      + destruct (add_h_other s (fst p) (snd p)) as (A1 & A2 & A3 & A4 & A5 & A6 & A7 & A8 & _).
        split; [exact I1|]. rewrite I2, I3, I4, I5, I6, I7, I8, I9, A1, A2, A3, A4, A5, A6, A7, A8. repeat split; auto.
        * intros m Hm. apply I10. now apply add_h_keeps.
        * intros m Hm. destruct (I11 m Hm) as [H|H]; [|right; now right]. destruct (add_h_new _ _ _ _ H) as [H'| ->]; [now left|right; now left].
  Qed.

  Lemma handle_man_adds s d child : 3 <= d -> present d -> exists l,
    (forall p, In p l -> ok_handler (fst p) (snd p) /\ 3 <= fst p) /\
    (let s1 := adds s l in
     handle_man a s d child = mkSt (hs s1) (proc s1) (links s1) (fins s1 ++ [FPush d child]) (out s1) (bpresent s1) (mpresent s1) true
                                   (foundL s1) (foundI s1) (dfound s1) (d :: mans s1) (dcfg s1) (dlayers s1)) /\
    (forall c, match content a d with NIndex ch => In c (map fst ch) | NImage cfg ls => cfg = Some c \/ In c ls | NBlob => False end -> In c (map fst l)).
  Proof.
    intros H3 Hp. pose proof (Hclosed d Hp H3) as Hcl. unfold handle_man.
    destruct (content a d) as [ch|cfg ls|] eqn:Ec.
    - exists (map (fun p => (fst p, HMan (snd p) true (fst p))) ch). split.
      + intros p Hin. apply in_map_iff in Hin as ([c k] & <- & Hin). cbn. destruct (Hcl c k Hin) as (A & B & C). auto 6.
      + split; [cbv zeta; unfold adds; rewrite fold_left_map'; reflexivity|]. intros c Hc. rewrite map_map. cbn [fst]. exact Hc.
    - destruct Hcl as [Hc Hl].
      exists ((match cfg with Some c => [(c, HBlob c)] | None => [] end) ++ map (fun l => (l, HBlob l)) ls). split.
      + intros p Hin. apply in_app_or in Hin as [Hin|Hin].
        * destruct cfg as [c|]; [|destruct Hin]. destruct Hin as [<-|[]]. cbn. destruct (Hc c eq_refl). auto 6.
        * apply in_map_iff in Hin as (l & <- & Hin). cbn. destruct (Hl l Hin). auto 6.
      + split; [cbv zeta; unfold adds; rewrite fold_left_app, fold_left_map'; destruct cfg; reflexivity|].
        intros c [Hc'|Hc']; rewrite map_app; apply in_or_app; [left; subst cfg; now left|right; rewrite map_map; cbn [fst]; now rewrite map_id].
    - exists []. split; [intros p []|]. split; [reflexivity|intros c []].
  Qed.

  Lemma has_after_del n s1 m : has_h (after_del n s1) m = if Nat.eqb n m then false else has_h s1 m.
  Proof.
    unfold has_h, after_del. cbn [hs]. destruct (Nat.eqb_spec n m) as [->|Hn]; [now rewrite hget_hdel_eq|now rewrite hget_hdel_neq].
  Qed.

  (* a handler other than the two markers and the root's whose run changes nothing but uploads *)
  Lemma W_simple s s1 n h : W s -> hget n (hs s) = Some h -> (exists c, In (EFile n c) es) \/ n = 2 -> n <> 0 -> n <> 1 -> n <> root ->
    hs s1 = hs s -> proc s1 = proc s -> links s1 = links s -> fins s1 = fins s -> added s1 = added s ->
    foundL s1 = foundL s -> foundI s1 = foundI s -> mans s1 = mans s ->
    W (after_del n s1) /\ Mono s (after_del n s1) n.
  Proof.
    intros HW Hg He Hn0 Hn1 Hnr Ehs Eproc Elinks Efins Eadded EfL EfI Emans.
    assert (Hh1 : forall m, has_h s1 m = has_h s m) by (intro m; unfold has_h; now rewrite Ehs).
    destruct (w_h s HW n h Hg) as [Hok Hnp].
    assert (Hd : forall m, has_h (after_del n s1) m = if Nat.eqb n m then false else has_h s m) by (intro m; now rewrite has_after_del, Hh1).
    assert (E0 : Nat.eqb n 0 = false) by now apply Nat.eqb_neq.
    assert (E1 : Nat.eqb n 1 = false) by now apply Nat.eqb_neq.
    assert (Er : Nat.eqb n root = false) by now apply Nat.eqb_neq.
    split.
    - constructor.
      + cbn. rewrite Elinks. apply (w_links s HW).
      + intros m h' Hm. cbn [after_del hs proc] in *. destruct (Nat.eq_dec n m) as [->|Hne]; [rewrite hget_hdel_eq in Hm; discriminate|].
        rewrite hget_hdel_neq, Ehs in Hm by exact Hne. destruct (w_h s HW m h' Hm) as [A B]. split; [exact A|]. rewrite Eproc. intros [E|Hin]; [congruence|contradiction].
      + cbn. rewrite Eproc. constructor; [exact Hnp|apply (w_nodup s HW)].
      + cbn. rewrite Eproc. intros m [<-|Hin]; [destruct He as [He| ->]; auto|apply (w_proc s HW m Hin)].
      + rewrite Hd, E0. cbn. rewrite EfL. apply (w_fl s HW).
      + rewrite Hd, E1. cbn. rewrite EfI. apply (w_fi s HW).
      + rewrite !Hd, E0, E1. destruct (Nat.eqb n 2); [discriminate|apply (w_two s HW)].
      + rewrite !Hd, E0, E1. intro Hpre. destruct (w_pre s HW Hpre) as (P1 & P2 & P3). split; [|split].
        * intros m Hm. rewrite Hd in Hm. destruct (Nat.eqb n m); [discriminate|now apply P1].
        * cbn. rewrite Eproc. intros m [<-|Hin]; [apply P1; apply has_h_get; eauto|now apply P2].
        * cbn. now rewrite Efins.
      + rewrite !Hd, E0, E1, Er. intros A B. destruct (w_fins s HW A B) as (r & R1 & R2 & R3). exists r. cbn. rewrite Efins, Emans. auto.
      + rewrite !Hd, E0, E1, Er. intros A B. destruct (w_root s HW A B) as [R|R]; [now left|right; cbn; rewrite Eproc; now right].
      + intros h' Hh'. cbn [after_del hs] in Hh'. rewrite hget_hdel_neq, Ehs in Hh' by exact Hnr. now apply (w_rooth s HW).
    - constructor.
      + cbn. now rewrite Eproc.
      + intros m Hm Hne _. rewrite Hd. destruct (Nat.eqb_spec n m); [congruence|exact Hm].
      + intros m Hm. rewrite Hd in Hm. destruct (Nat.eqb n m); [discriminate|now left].
      + cbn. now rewrite Eadded.
      + cbn. rewrite Emans. intros x Hx; exact Hx.
  Qed.

  Lemma import_blob_same s d dr : dr = false -> exists s1, import_blob a s d d dr = inl s1 /\
    hs s1 = hs s /\ proc s1 = proc s /\ links s1 = links s /\ fins s1 = fins s /\ added s1 = added s /\
    foundL s1 = foundL s /\ foundI s1 = foundI s /\ mans s1 = mans s.
  Proof.
    intros ->. unfold import_blob. destruct (memn d (bpresent s)); [exists s; auto 12|]. rewrite Nat.eqb_refl. eexists. split; [reflexivity|]. cbn. auto 12.
  Qed.

  Lemma no_markers_of_big s d : W s -> has_h s d = true -> 3 <= d -> has_h s 0 = false /\ has_h s 1 = false /\ has_h s 2 = false.
  Proof.
    intros HW Hd H3.
    assert (H01 : ~ (has_h s 0 = true \/ has_h s 1 = true)).
    { intro Hpre. destruct (w_pre s HW Hpre) as (P1 & _). specialize (P1 d Hd). lia. }
    assert (A : has_h s 0 = false) by (destruct (has_h s 0); [exfalso; apply H01; now left|reflexivity]).
    assert (B : has_h s 1 = false) by (destruct (has_h s 1); [exfalso; apply H01; now right|reflexivity]).
    split; [exact A|]. split; [exact B|]. destruct (has_h s 2) eqn:E2; [|reflexivity]. destruct (w_two s HW E2); congruence.
  Qed.

  Lemma adds_get_old : forall l s m, has_h s m = true \/ In m (proc s) -> hget m (hs (adds s l)) = hget m (hs s).
  Proof.
    induction l as [|p l IH]; intros s m Hm; cbn [adds fold_left]; [reflexivity|]. fold (adds (add_h s (fst p) (snd p)) l).
    destruct (add_h_other s (fst p) (snd p)) as (A1 & _).
    rewrite IH; [|destruct Hm as [Hm|Hm]; [left; now apply add_h_keeps|right; now rewrite A1]].
    destruct (add_h_cases s (fst p) (snd p)) as [[-> _]|(-> & Hp & Hn)]; [reflexivity|]. cbn [hs upd_hs]. rewrite hget_app.
    destruct (hget m (hs s)) eqn:E; [reflexivity|]. cbn. destruct (Nat.eqb_spec (fst p) m) as [Ep|]; [|reflexivity]. subst m.
    destruct Hm as [Hm|Hm]; [congruence|apply memn_In in Hm; congruence].
  Qed.

  Lemma oci_result s : (forall m, has_h s m = true -> m < 3) -> (forall m, In m (proc s) -> m < 3) ->
    oci_handler a q s = inl (mkSt (hdel 2 (hs s) ++ [(root, HMan KMan false root)]) (proc s) (links s) (fins s ++ [FTag root]) (out s) (bpresent s) (mpresent s) true
                                  (foundL s) (foundI s) (dfound s) (mans s) (dcfg s) (dlayers s)).
  Proof.
    intros Hh Hp. destruct Hroot as (R3 & _). unfold oci_handler. rewrite Hidx. unfold N_DOCKER.
    set (s0 := upd_hs s (hdel 2 (hs s))).
    destruct (add_h_cases s0 root (HMan KMan false root)) as [[_ [H|H]]|(E & _ & _)].
    - exfalso. apply memn_In in H. cbn in H. specialize (Hp root H). lia.
    - exfalso. unfold has_h, s0 in H. cbn [hs upd_hs] in H. rewrite hget_hdel_neq in H by lia. specialize (Hh root H). lia.
    - rewrite E. reflexivity.
  Qed.

  Lemma marker_W s n c s' : W s -> has_h s n = true -> n = 0 \/ n = 1 -> In (EFile n c) es ->
    hs s' = hs s -> proc s' = proc s -> links s' = links s -> fins s' = fins s -> added s' = added s -> mans s' = mans s ->
    foundL s' = (if Nat.eqb n 0 then true else foundL s) -> foundI s' = (if Nat.eqb n 1 then true else foundI s) ->
    exists s1, (if has_h s (1 - n) then inl s' else oci_handler a q s') = inl s1 /\ W (after_del n s1) /\ Mono s (after_del n s1) n.
  Proof.
    intros HW Hn Hn01 He Ehs Eproc Elinks Efins Eadded Emans EfL EfI.
    destruct Hroot as (R3 & Rp & Rc).
    assert (Hpre : has_h s 0 = true \/ has_h s 1 = true) by (destruct Hn01; subst n; auto).
    destruct (w_pre s HW Hpre) as (P1 & P2 & P3).
    assert (Hnp : ~ In n (proc s)) by (apply has_h_get in Hn as (v & Hv); apply (w_h s HW n v Hv)).
    assert (Hh1 : forall m, has_h s' m = has_h s m) by (intro m; unfold has_h; now rewrite Ehs).
    destruct (has_h s (1 - n)) eqn:Eo.
    - (* the other marker is still to come *)
      exists s'. split; [reflexivity|].
      assert (Hd : forall m, has_h (after_del n s') m = if Nat.eqb n m then false else has_h s m) by (intro m; now rewrite has_after_del, Hh1).
      split.
      + constructor.
        * cbn. rewrite Elinks. apply (w_links s HW).
        * intros m h' Hm. cbn [after_del hs proc] in *. destruct (Nat.eq_dec n m) as [->|Hne]; [rewrite hget_hdel_eq in Hm; discriminate|].
          rewrite hget_hdel_neq, Ehs in Hm by exact Hne. destruct (w_h s HW m h' Hm) as [A B]. split; [exact A|]. rewrite Eproc. intros [E|Hin]; [congruence|contradiction].
        * cbn. rewrite Eproc. constructor; [exact Hnp|apply (w_nodup s HW)].
        * cbn. rewrite Eproc. intros m [<-|Hin]; [eauto|apply (w_proc s HW m Hin)].
        * rewrite Hd. cbn [after_del foundL]. rewrite EfL. destruct Hn01; subst n; cbn; [reflexivity|apply (w_fl s HW)].
        * rewrite Hd. cbn [after_del foundI]. rewrite EfI. destruct Hn01; subst n; cbn; [apply (w_fi s HW)|reflexivity].
        * rewrite !Hd. intros _. destruct Hn01; subst n; cbn in *; [right; exact Eo|left; exact Eo].
        * rewrite !Hd. intros _. split; [|split].
          -- intros m Hm. rewrite Hd in Hm. destruct (Nat.eqb n m); [discriminate|now apply P1].
          -- cbn. rewrite Eproc. intros m [<-|Hin]; [destruct Hn01; subst n; lia|now apply P2].
          -- cbn. now rewrite Efins.
        * rewrite !Hd. intros A B. exfalso. destruct Hn01; subst n; cbn in *; congruence.
        * rewrite !Hd. intros A B. exfalso. destruct Hn01; subst n; cbn in *; congruence.
        * intros h' Hh'. exfalso. assert (Hr : has_h (after_del n s') root = true) by (apply has_h_get; eauto). rewrite Hd in Hr.
          destruct (Nat.eqb n root); [discriminate|]. specialize (P1 root Hr). lia.
      + constructor.
        * cbn. now rewrite Eproc.
        * intros m Hm Hne _. rewrite Hd. destruct (Nat.eqb_spec n m); [congruence|exact Hm].
        * intros m Hm. rewrite Hd in Hm. destruct (Nat.eqb n m); [discriminate|now left].
        * cbn. now rewrite Eadded.
        * cbn. rewrite Emans. intros x Hx; exact Hx.
    - (* both markers read: the selected manifest gets its handler *)
      assert (Ho := oci_result s'). rewrite Ho; clear Ho;
        [|intros m Hm; apply P1; now rewrite <- Hh1|intros m Hm; rewrite Eproc in Hm; now apply P2].
      set (Hr := HMan KMan false root).
      eexists. split; [reflexivity|].
      match goal with |- W (after_del n ?S) /\ _ => set (S1 := S) end.
      assert (Hn3 : n < 3) by (destruct Hn01; subst n; lia).
      assert (Hget : forall m, hget m (hs (after_del n S1)) = if Nat.eqb m root then Some Hr else None).
      { intro m. unfold after_del, S1. cbn [hs]. destruct (Nat.eq_dec n m) as [<-|Hne].
        - rewrite hget_hdel_eq. destruct (Nat.eqb_spec n root); [lia|reflexivity].
        - rewrite hget_hdel_neq by exact Hne. rewrite hget_app.
          destruct (Nat.eq_dec 2 m) as [<-|H2].
          + rewrite hget_hdel_eq. cbn [hget]. replace (Nat.eqb root 2) with false by (symmetry; apply Nat.eqb_neq; lia).
            replace (Nat.eqb 2 root) with false by (symmetry; apply Nat.eqb_neq; lia). reflexivity.
          + rewrite hget_hdel_neq by exact H2. rewrite Ehs. destruct (hget m (hs s)) as [v|] eqn:Ev.
            * exfalso. assert (Hm : has_h s m = true) by (apply has_h_get; eauto). specialize (P1 m Hm).
              assert (m = 1 - n) by (destruct Hn01; subst n; lia). subst m. congruence.
            * cbn [hget]. rewrite (Nat.eqb_sym root m). destruct (Nat.eqb m root); reflexivity. }
      assert (Hd : forall m, has_h (after_del n S1) m = Nat.eqb m root) by (intro m; unfold has_h; rewrite Hget; destruct (Nat.eqb m root); reflexivity).
      assert (Hr0 : Nat.eqb 0 root = false) by (apply Nat.eqb_neq; lia).
      assert (Hr1 : Nat.eqb 1 root = false) by (apply Nat.eqb_neq; lia).
      assert (Hr2 : Nat.eqb 2 root = false) by (apply Nat.eqb_neq; lia).
      split.
      + constructor.
        * cbn. rewrite Elinks. apply (w_links s HW).
        * intros m h' Hm. rewrite Hget in Hm. destruct (Nat.eqb_spec m root) as [->|]; [|discriminate]. inversion Hm; subst h'.
          split; [cbn; auto|]. cbn. rewrite Eproc. intros [E|Hin]; [lia|specialize (P2 root Hin); lia].
        * cbn. rewrite Eproc. constructor; [exact Hnp|apply (w_nodup s HW)].
        * cbn. rewrite Eproc. intros m [<-|Hin]; [eauto|apply (w_proc s HW m Hin)].
        * rewrite Hd, Hr0. cbn [after_del foundL S1 negb]. rewrite EfL. destruct Hn01; subst n; cbn; [reflexivity|]. cbn in Eo. rewrite (w_fl s HW), Eo. reflexivity.
        * rewrite Hd, Hr1. cbn [after_del foundI S1 negb]. rewrite EfI. destruct Hn01; subst n; cbn; [|reflexivity]. cbn in Eo. rewrite (w_fi s HW), Eo. reflexivity.
        * rewrite Hd, Hr2. discriminate.
        * rewrite !Hd, Hr0, Hr1. intros [H|H]; discriminate.
        * intros _ _. exists []. cbn. rewrite Efins, P3. split; [reflexivity|]. split; [intros d []|]. right. fold (has_h (after_del n S1) root). rewrite Hd. apply Nat.eqb_refl.
        * intros _ _. left. rewrite Hd. apply Nat.eqb_refl.
        * intros h' Hh'. rewrite Hget, Nat.eqb_refl in Hh'. now inversion Hh'.
      + constructor.
        * cbn. now rewrite Eproc.
        * intros m Hm Hne H2. exfalso. specialize (P1 m Hm). assert (m = 1 - n) by (destruct Hn01; subst n; lia). subst m. congruence.
        * intros m _. right. reflexivity.
        * intros _. reflexivity.
        * cbn. rewrite Emans. intros x Hx; exact Hx.
  Qed.

  (* the handler of a manifest: its children get handlers, its push is deferred *)
  Lemma man_W s d k child : W s -> hget d (hs s) = Some (HMan k child d) -> 3 <= d -> present d ->
    W (after_del d (handle_man a s d child)) /\ Mono s (after_del d (handle_man a s d child)) d.
  Proof.
    intros HW Hg H3 Hp. destruct (w_h s HW d _ Hg) as [_ Hnp].
    assert (Hhas : has_h s d = true) by (apply has_h_get; eauto).
    destruct (no_markers_of_big s d HW Hhas H3) as (N0 & N1 & N2).
    destruct (handle_man_adds s d child H3 Hp) as (l & Hl & -> & _). cbv zeta.
    destruct (adds_spec l s (fun p Hin => proj1 (Hl p Hin)) (w_h s HW)) as (A1 & A2 & A3 & A4 & A5 & A6 & A7 & A8 & A9 & A10 & A11).
    set (s1 := adds s l) in *.
    assert (Hsmall : forall m, m < 3 -> has_h s1 m = false).
    { intros m Hm. destruct (has_h s1 m) eqn:E; [|reflexivity]. exfalso. destruct (A11 m E) as [H|H].
      - destruct m as [|[|[|m]]]; try lia; congruence.
      - apply in_map_iff in H as (p & <- & Hin). destruct (Hl p Hin). lia. }
    match goal with |- W (after_del d ?S) /\ _ =>
      assert (Hd : forall m, has_h (after_del d S) m = if Nat.eqb d m then false else has_h s1 m) by (intro m; rewrite has_after_del; reflexivity) end.
    assert (E0 : Nat.eqb d 0 = false) by (apply Nat.eqb_neq; lia).
    assert (E1 : Nat.eqb d 1 = false) by (apply Nat.eqb_neq; lia).
    assert (E2 : Nat.eqb d 2 = false) by (apply Nat.eqb_neq; lia).
    split.
    - constructor.
      + cbn. rewrite A3. apply (w_links s HW).
      + intros m h' Hm. cbn [after_del hs proc] in *. destruct (Nat.eq_dec d m) as [->|Hne]; [rewrite hget_hdel_eq in Hm; discriminate|].
        rewrite hget_hdel_neq in Hm by exact Hne. destruct (A1 m h' Hm) as [B C]. split; [exact B|]. rewrite A2 in *. intros [E|Hin]; [congruence|contradiction].
      + cbn. rewrite A2. constructor; [exact Hnp|apply (w_nodup s HW)].
      + cbn. rewrite A2. intros m [<-|Hin]; [right; eauto|apply (w_proc s HW m Hin)].
      + rewrite Hd, E0, (Hsmall 0) by lia. cbn. rewrite A7, (w_fl s HW), N0. reflexivity.
      + rewrite Hd, E1, (Hsmall 1) by lia. cbn. rewrite A8, (w_fi s HW), N1. reflexivity.
      + rewrite Hd, E2, (Hsmall 2) by lia. discriminate.
      + rewrite !Hd, E0, E1, (Hsmall 0), (Hsmall 1) by lia. intros [H|H]; discriminate.
      + intros _ _. destruct (w_fins s HW N0 N1) as (r & R1 & R2 & R3). exists (r ++ [FPush d child]). cbn [after_del fins mans]. rewrite A4, R1. split; [reflexivity|].
        split; [intros x Hx; apply in_app_or in Hx as [Hx|[Hx|[]]]; [now apply (R2 x)|discriminate]|].
        rewrite A9. destruct R3 as [R3|R3]; [left; now right|]. destruct (Nat.eq_dec d root) as [->|Hne]; [left; now left|].
        right. rewrite has_after_del. destruct (Nat.eqb_spec d root); [contradiction|exact (A10 root R3)].
      + intros _ _. destruct (w_root s HW N0 N1) as [R|R].
        * destruct (Nat.eq_dec d root) as [->|Hne]; [right; cbn; now left|]. left. rewrite Hd. destruct (Nat.eqb_spec d root); [contradiction|now apply A10].
        * right. cbn. rewrite A2. now right.
      + intros h' Hh'. cbn [after_del hs] in Hh'. destruct (Nat.eq_dec d root) as [->|Hne]; [rewrite hget_hdel_eq in Hh'; discriminate|].
        rewrite hget_hdel_neq in Hh' by exact Hne. unfold s1 in Hh'. rewrite adds_get_old in Hh' by (destruct (w_root s HW N0 N1); auto). now apply (w_rooth s HW).
    - constructor.
      + cbn. now rewrite A2.
      + intros m Hm Hne _. rewrite Hd. destruct (Nat.eqb_spec d m); [congruence|now apply A10].
      + intros m _. right. reflexivity.
      + intros _. reflexivity.
      + cbn. rewrite A9. intros x Hx. now right.
  Qed.

  (* one handler on its entry: never an error; the invariant and the bookkeeping facts hold afterwards *)
  Lemma step_W s n h c : W s -> hget n (hs s) = Some h -> In (EFile n c) es ->
    exists s1, run_h a q s h c = inl s1 /\ W (after_del n s1) /\ Mono s (after_del n s1) n.
  Proof.
    intros HW Hg He. destruct (w_h s HW n h Hg) as [Hok Hnp].
    assert (Hhas : has_h s n = true) by (apply has_h_get; eauto).
    destruct h as [| | |k child d|d| |ps]; cbn [ok_handler] in Hok; try contradiction.
    - (* oci-layout *)
      subst n. cbn [run_h run_h_gen]. rewrite Hlay. rewrite (w_fi s HW).
      destruct (marker_W s 0 c (set_found s true (foundI s)) HW Hhas (or_introl eq_refl) He) as (s1 & E & HW1 & HM1); try reflexivity.
      exists s1. split; [|split; assumption]. cbn [Nat.sub] in E. rewrite (w_fi s HW) in E. destruct (has_h s 1); cbn [negb] in *; exact E.
    - (* index.json *)
      subst n. cbn [run_h run_h_gen]. rewrite (w_fl s HW).
      destruct (marker_W s 1 c (set_found s (foundL s) true) HW Hhas (or_intror eq_refl) He) as (s1 & E & HW1 & HM1); try reflexivity.
      exists s1. split; [|split; assumption]. cbn [Nat.sub] in E. rewrite (w_fl s HW) in E. destruct (has_h s 0); cbn [negb] in *; exact E.
    - (* manifest.json *)
      subst n. cbn [run_h run_h_gen]. eexists. split; [reflexivity|].
      destruct Hroot as (R3 & _). eapply W_simple; eauto; try reflexivity; lia.
    - (* an index entry or the selected manifest *)
      destruct Hok as (-> & H3 & Hp & Hk). assert (c = d) by (apply Hself; auto). subst c.
      cbn [run_h run_h_gen]. rewrite Nat.eqb_refl. cbn [andb].
      assert (Hblob : k <> KMan -> exists s1, import_blob a s d d false = inl s1 /\ W (after_del d s1) /\ Mono s (after_del d s1) d).
      { intro Hne. destruct (import_blob_same s d false eq_refl) as (s1 & E & F1 & F2 & F3 & F4 & F5 & F6 & F7 & F8).
        exists s1. split; [exact E|]. eapply W_simple; eauto; try lia.
        intros ->. specialize (w_rooth s HW _ Hg). intro Hx. inversion Hx. congruence. }
      destruct k.
      + specialize (Hk eq_refl). destruct (content a d) eqn:Ec; [| |congruence]; (eexists; split; [reflexivity|]; now apply (man_W s d KMan child)).
      + apply Hblob. discriminate.
      + destruct (content a d) eqn:Ec; [| |apply Hblob; discriminate]; (eexists; split; [reflexivity|]; now apply (man_W s d KUnk child)).
      + apply Hblob. discriminate.
    - (* a config or layer *)
      destruct Hok as (-> & H3 & Hp). assert (c = d) by (apply Hself; auto). subst c.
      destruct (import_blob_same s d false eq_refl) as (s1 & E & F1 & F2 & F3 & F4 & F5 & F6 & F7 & F8).
      exists s1. split; [exact E|]. eapply W_simple; eauto; try lia.
      intros ->. specialize (w_rooth s HW _ Hg). discriminate.
  Qed.

  Lemma link_list_nil s n : links s = [] -> link_list s n = Some [].
  Proof. intro H. unfold link_list. rewrite H. reflexivity. Qed.

  Record Step (s s' : st) (n : nat) : Prop := mkStep {
    st_done : has_h s n = true -> In n (proc s');
    st_keep : forall m, has_h s m = true -> m <> n -> m <> 2 -> has_h s' m = true;
    st_new : forall m, has_h s' m = true -> has_h s m = true \/ added s' = true;
    st_added : added s = true -> added s' = true;
    st_proc : incl (proc s) (proc s');
    st_ne : hs s <> [] -> hs s' <> []
  }.

  Lemma entry_W s n c : W s -> In (EFile n c) es ->
    match run_list a q s [n] c false with
    | PErr _ => False
    | PDone s' => W s' /\ hs s' = []
    | PCont s' => W s' /\ Step s s' n
    end.
  Proof.
    intros HW He. cbn [run_list]. destruct (hget n (hs s)) as [h|] eqn:Eg.
    - destruct (step_W s n h c HW Eg He) as (s1 & E & HW2 & HM). fold (run_h a q s h c). rewrite E. fold (after_del n s1).
      destruct (hs (after_del n s1)) eqn:Eh; [auto|]. cbn [run_list]. split; [exact HW2|].
      constructor.
      + intros _. rewrite (m_proc _ _ _ HM). now left.
      + apply (m_keep _ _ _ HM).
      + apply (m_new _ _ _ HM).
      + apply (m_added _ _ _ HM).
      + rewrite (m_proc _ _ _ HM). intros x Hx; now right.
      + intros _. rewrite Eh. discriminate.
    - split; [exact HW|]. assert (Hn : has_h s n = false) by (unfold has_h; now rewrite Eg).
      constructor; [intro; congruence|auto|intros m Hm; now left|auto|intros x Hx; exact Hx|auto].
  Qed.

  (* a pass over (a suffix of) the entries *)
  Lemma pass_W : forall r s, (forall e, In e r -> In e es) -> W s ->
    match pass a q s r with
    | PErr _ => False
    | PDone s' => W s' /\ hs s' = []
    | PCont s' => W s' /\
        (forall n, has_h s n = true -> n <> 2 -> (exists c, In (EFile n c) r) -> In n (proc s')) /\
        (forall n, has_h s' n = true -> has_h s n = true \/ added s' = true) /\
        (added s = true -> added s' = true) /\ incl (proc s) (proc s') /\ (hs s <> [] -> hs s' <> [])
    end.
  Proof.
    induction r as [|e r IH]; intros s Hr HW; cbn [pass].
    - split; [exact HW|]. split; [intros n _ _ (c & []) |]. split; [intros n Hn; now left|]. split; [auto|]. split; [intros x Hx; exact Hx|auto].
    - destruct (Hfiles e (Hr e (or_introl eq_refl))) as (n & c & ->).
      rewrite (link_list_nil s n (w_links s HW)). cbn [app].
      pose proof (entry_W s n c HW (Hr _ (or_introl eq_refl))) as HE.
      destruct (run_list a q s [n] c false) as [s2|s2|err]; [|exact HE|exact HE].
      destruct HE as (HW2 & HS).
      specialize (IH s2 (fun e He => Hr e (or_intror He)) HW2).
      destruct (pass a q s2 r) as [s'|s'|err]; [|exact IH|exact IH].
      destruct IH as (HW' & Q1 & Q2 & Q3 & Q4 & Q6). split; [exact HW'|]. split; [|split; [|split; [|split]]].
      + intros m Hm Hm2 (c' & Hc).
        destruct (Nat.eq_dec m n) as [->|Hne]; [apply Q4; now apply (st_done _ _ _ HS)|].
        destruct Hc as [Hc|Hc]; [inversion Hc; congruence|].
        apply Q1; [now apply (st_keep _ _ _ HS)|exact Hm2|eauto].
      + intros m Hm. destruct (Q2 m Hm) as [H|H]; [|now right]. destruct (st_new _ _ _ HS m H) as [H'|H']; [now left|right; now apply Q3].
      + intro Ha. apply Q3. now apply (st_added _ _ _ HS).
      + intros x Hx. apply Q4. now apply (st_proc _ _ _ HS).
      + intro Hne. apply Q6. now apply (st_ne _ _ _ HS).
  Qed.

  Lemma W_upd_added s b : W s -> W (upd_added s b).
  Proof. intros [H1 H2 H3 H4 H5 H6 H7 H8 H9 H10 H11]. constructor; auto. Qed.

  Lemma proc_bound s : W s -> length (proc s) <= S (length es).
  Proof.
    intro HW. assert (Hi : incl (proc s) (2 :: map (fun e => match e with EFile n _ => n | ELnk n _ => n end) es)).
    { intros n Hn. destruct (w_proc s HW n Hn) as [->|(c & Hc)]; [now left|right]. apply in_map_iff. exists (EFile n c). auto. }
    pose proof (NoDup_incl_length (w_nodup s HW) Hi) as Hl. cbn in Hl. now rewrite map_length in Hl.
  Qed.

  Lemma handler_entry s n : W s -> has_h s n = true -> n <> 2 -> exists c, In (EFile n c) es.
  Proof.
    intros HW Hn H2. apply has_h_get in Hn as (h & Hh). destruct (w_h s HW n h Hh) as [Hok _].
    destruct h; cbn in Hok; try contradiction; try (subst n; (apply Hmark || lia)).
    - destruct Hok as (-> & _ & Hp & _). now exists d.
    - destruct Hok as (-> & _ & Hp). now exists d.
  Qed.

  Lemma grows (l l' : list nat) x : NoDup l -> NoDup l' -> incl l l' -> In x l' -> ~ In x l -> length l < length l'.
  Proof.
    intros Hn Hn' Hi Hx Hnx. assert (H : incl (x :: l) l') by (intros y [<-|Hy]; auto).
    pose proof (NoDup_incl_length (NoDup_cons x Hnx Hn) H). cbn in *. lia.
  Qed.

  Lemma read_all_W : forall k s, W s -> length es + 2 <= k + length (proc s) ->
    exists s', read_all k a q s = Some (inl s') /\ W s' /\ hs s' = [].
  Proof.
    induction k as [|k IH]; intros s HW Hk.
    - pose proof (proc_bound s HW). lia.
    - cbn [read_all]. destruct (hs s) as [|p0 hrest] eqn:Ehs; [exists s; auto|].
      assert (Hne : hs s <> []) by (rewrite Ehs; discriminate).
      pose proof (pass_W es (upd_added s false) (fun e He => He) (W_upd_added s false HW)) as HP.
      destruct (pass a q (upd_added s false) es) as [s'|s'|err]; [|destruct HP; eauto|contradiction].
      destruct HP as (HW' & Q1 & Q2 & Q3 & Q4 & Q6).
      change (has_h (upd_added s false)) with (has_h s) in *. change (proc (upd_added s false)) with (proc s) in *. change (hs (upd_added s false)) with (hs s) in *.
      (* some handler that existed at the start of the pass was run *)
      assert (Hprog : exists m, has_h s m = true /\ m <> 2).
      { destruct (hs_nonempty_get (hs s) Hne) as (m & v & Hv). assert (Hm : has_h s m = true) by (apply has_h_get; eauto).
        destruct (Nat.eq_dec m 2) as [->|H2]; [|eauto]. destruct (w_two s HW Hm) as [H|H]; [exists 0|exists 1]; split; auto. }
      destruct Hprog as (m & Hm & Hm2).
      destruct (handler_entry s m HW Hm Hm2) as (c & Hc).
      assert (Hin : In m (proc s')) by (apply Q1; eauto).
      assert (Hnin : ~ In m (proc s)) by (apply has_h_get in Hm as (v & Hv); apply (w_h s HW m v Hv)).
      pose proof (grows _ _ m (w_nodup s HW) (w_nodup s' HW') Q4 Hin Hnin) as Hgrow.
      (* whatever is still registered was registered during this pass *)
      assert (Hadd : added s' = true).
      { destruct (hs_nonempty_get (hs s') (Q6 Hne)) as (x & v & Hv). assert (Hx : has_h s' x = true) by (apply has_h_get; eauto).
        assert (Hold : forall y, has_h s' y = true -> y <> 2 -> has_h s y = true -> False).
        { intros y Hy Hy2 Hys. destruct (handler_entry s y HW Hys Hy2) as (cy & Hcy). assert (In y (proc s')) by (apply Q1; eauto).
          apply has_h_get in Hy as (vy & Hvy). now apply (w_h s' HW' y vy Hvy). }
        destruct (Q2 x Hx) as [Hxs|Ha]; [|exact Ha]. destruct (Nat.eq_dec x 2) as [->|Hx2]; [|exfalso; eapply Hold; eauto].
        destruct (w_two s' HW' Hx) as [H|H]; (destruct (Q2 _ H) as [Hs|Ha]; [exfalso; eapply Hold; eauto|exact Ha]). }
      rewrite Hadd. apply IH; [exact HW'|lia].
  Qed.

  Lemma W_init : W (st0 [] []).
  Proof.
    destruct Hroot as (R3 & _).
    constructor; unfold st0, has_h, N_LAYOUT, N_INDEX, N_DOCKER; cbn [hs proc links fins foundL foundI mans hget Nat.eqb negb]; auto.
    - intros n h. destruct n as [|[|[|n]]]; cbn; intro H; inversion H; subst; cbn; auto.
    - constructor.
    - intros n [].
    - intros _. split; [|split; [intros n []|reflexivity]]. intros n. destruct n as [|[|[|n]]]; cbn; [lia|lia|lia|discriminate].
    - discriminate.
    - discriminate.
    - intros h. destruct root as [|[|[|r]]]; try lia. cbn. discriminate.
  Qed.

  (* the deferred pushes never fail; the tag is set last *)
  Lemma put_man_mans d s : mans (put_man d s) = mans s.
  Proof. unfold put_man. destruct (memn d (mpresent s)); reflexivity. Qed.
  Lemma fpush_mans : forall fuel reg d sd, mans (fst (fpush fuel a reg d sd)) = mans (fst sd).
  Proof.
    induction fuel as [|f IH]; intros reg d sd; cbn [fpush]; [reflexivity|]. destruct (memn d (snd sd)); [reflexivity|]. cbn [fst snd].
    rewrite put_man_mans. destruct (content a d) as [ch| |]; try reflexivity.
    assert (H : forall ch acc, mans (fst (fold_left (fun acc (p : nat * cls) => if memn (fst p) reg then fpush f a reg (fst p) acc else acc) ch acc)) = mans (fst acc)).
    { induction ch0 as [|p ch0 IHc]; intro acc; cbn [fold_left]; [reflexivity|]. rewrite IHc. destruct (memn (fst p) reg); [apply IH|reflexivity]. }
    now rewrite H.
  Qed.
  Lemma put_man_out d s : exists o, out (put_man d s) = out s ++ o /\ (forall x, In (EvTag x) o -> False).
  Proof. unfold put_man. destruct (memn d (mpresent s)); [exists []; rewrite app_nil_r; split; [reflexivity|intros x []]|exists [EvPut d]; split; [reflexivity|intros x [H|[]]; discriminate]]. Qed.
  Lemma fpush_out : forall fuel reg d sd, exists o, out (fst (fpush fuel a reg d sd)) = out (fst sd) ++ o /\ (forall x, In (EvTag x) o -> False).
  Proof.
    induction fuel as [|f IH]; intros reg d sd; cbn [fpush]; [exists []; rewrite app_nil_r; split; [reflexivity|intros x []]|].
    destruct (memn d (snd sd)); [exists []; rewrite app_nil_r; split; [reflexivity|intros x []]|]. cbn [fst snd].
    assert (H : forall ch acc, exists o, out (fst (fold_left (fun acc (p : nat * cls) => if memn (fst p) reg then fpush f a reg (fst p) acc else acc) ch acc)) = out (fst acc) ++ o /\ (forall x, In (EvTag x) o -> False)).
    { induction ch as [|p ch IHc]; intro acc; cbn [fold_left]; [exists []; rewrite app_nil_r; split; [reflexivity|intros x []]|].
      destruct (IHc (if memn (fst p) reg then fpush f a reg (fst p) acc else acc)) as (o2 & E2 & N2).
      destruct (memn (fst p) reg).
      - destruct (IH reg (fst p) acc) as (o1 & E1 & N1). exists (o1 ++ o2). rewrite E2, E1, app_assoc. split; [reflexivity|].
        intros x Hx. apply in_app_or in Hx as [Hx|Hx]; eauto.
      - exists o2. auto. }
    destruct (content a d) as [ch| |].
    - destruct (H ch (fst sd, d :: snd sd)) as (o1 & E1 & N1). destruct (put_man_out d (fst (fold_left (fun acc (p : nat * cls) => if memn (fst p) reg then fpush f a reg (fst p) acc else acc) ch (fst sd, d :: snd sd)))) as (o2 & E2 & N2).
      exists (o1 ++ o2). rewrite E2, E1. cbn [fst]. rewrite app_assoc. split; [reflexivity|]. intros x Hx. apply in_app_or in Hx as [Hx|Hx]; eauto.
    - cbn [fst]. apply put_man_out.
    - cbn [fst]. apply put_man_out.
  Qed.

  Lemma run_fins_pushes fuel reg : forall l sd, (forall x, In x l -> forall d, x <> FTag d) ->
    exists sd', (forall tail, run_fins_from fuel a reg (l ++ tail) sd = run_fins_from fuel a reg tail sd') /\
                mans (fst sd') = mans (fst sd) /\ exists o, out (fst sd') = out (fst sd) ++ o /\ (forall x, In (EvTag x) o -> False).
  Proof.
    induction l as [|f l IH]; intros sd Hl.
    - exists sd. split; [reflexivity|]. split; [reflexivity|]. exists []. rewrite app_nil_r. split; [reflexivity|intros x []].
    - destruct f as [d|d ch]; [exfalso; eapply (Hl (FTag d)); [now left|reflexivity]|].
      destruct (IH (fpush fuel a reg d sd)) as (sd' & E & M & o & O & N); [intros x Hx; apply Hl; now right|].
      exists sd'. split; [intro tail; cbn [app run_fins_from]; apply E|]. split; [rewrite M; apply fpush_mans|].
      destruct (fpush_out fuel reg d sd) as (o1 & O1 & N1). exists (o1 ++ o). rewrite O, O1, app_assoc. split; [reflexivity|].
      intros x Hx. apply in_app_or in Hx as [Hx|Hx]; eauto.
  Qed.

  (* the whole import: success, and the last thing that happens is that the reference is given to the selected manifest *)
  Theorem import_complete_archive : exists evs, import (length es + 2) a q [] [] = Some (inl (evs ++ [EvTag root])) /\ (forall x, In (EvTag x) evs -> False).
  Proof.
    destruct (read_all_W (length es + 2) (st0 [] []) W_init) as (s' & E & HW' & Hh); [cbn; lia|].
    unfold import. rewrite E.
    assert (N0 : has_h s' 0 = false) by (unfold has_h; now rewrite Hh).
    assert (N1 : has_h s' 1 = false) by (unfold has_h; now rewrite Hh).
    destruct (w_fins s' HW' N0 N1) as (r & R1 & R2 & R3).
    assert (Rm : In root (mans s')) by (destruct R3 as [R3|R3]; [exact R3|unfold has_h in R3; rewrite Hh in R3; discriminate]).
    unfold run_fins. rewrite R1. cbn [rev].
    destruct (run_fins_pushes (length es + 2) (registered (rev r ++ [FTag root])) (rev r) (s', [])) as (sd' & Ef & M & o & O & N).
    { intros x Hx d ->. apply in_rev in Hx. now apply (R2 d). }
    rewrite (Ef [FTag root]). cbn [run_fins_from]. rewrite M. cbn [fst]. apply memn_In in Rm. rewrite Rm. cbn [out].
    assert (Hout : exists o0, out s' = o0 /\ (forall x, In (EvTag x) o0 -> False)).
    { exists (out s'). split; [reflexivity|]. pose proof (read_all_ext a q _ _ _ E) as (l & El & Fl). cbn in El. rewrite El.
      intros x Hx. rewrite Forall_forall in Fl. specialize (Fl _ Hx). exact Fl. }
    destruct Hout as (o0 & <- & N0'). exists (out s' ++ o). rewrite O. cbn [fst]. split; [reflexivity|].
    intros x Hx. apply in_app_or in Hx as [Hx|Hx]; eauto.
  Qed.

  (* ---------- what the import has delivered: the pushed manifests are closed under their references ---------- *)
  Definition child (d c : nat) : Prop :=
    match content a d with NIndex ch => In c (map fst ch) | NImage cfg ls => cfg = Some c \/ In c ls | NBlob => False end.

  Record K (s : st) : Prop := mkK {
    k_kids : forall d, In d (mans s) -> forall c, child d c -> has_h s c = true \/ In c (proc s);
    k_out : forall n, In n (proc s) -> 3 <= n -> In n (mans s) \/ In (EvBlob n) (out s);
    k_bp : forall d, In d (bpresent s) -> In (EvBlob d) (out s);
    k_fins : forall d, In d (mans s) -> exists ch, In (FPush d ch) (fins s);
    k_reg : forall d ch, In (FPush d ch) (fins s) -> In d (mans s);
    k_pre : has_h s 0 = true \/ has_h s 1 = true -> mans s = [];
    k_mp : forall d, In d (mans s) -> 3 <= d /\ present d
  }.

  (* a step that leaves the handled manifests alone *)
  Lemma K_simple s s1 n : K s -> hs s1 = hs s -> proc s1 = proc s -> mans s1 = mans s -> fins s1 = fins s ->
    (forall e, In e (out s) -> In e (out s1)) -> (forall d, In d (bpresent s1) -> In (EvBlob d) (out s1)) ->
    (3 <= n -> In n (mans s) \/ In (EvBlob n) (out s1)) ->
    K (after_del n s1).
  Proof.
    intros HK Ehs Eproc Emans Efins Hout Hbp Hn.
    assert (Hd : forall m, has_h (after_del n s1) m = if Nat.eqb n m then false else has_h s m).
    { intro m. rewrite has_after_del. unfold has_h. now rewrite Ehs. }
    constructor; cbn [after_del mans proc out bpresent fins].
    - rewrite Emans, Eproc. intros d Hd' c Hc. destruct (k_kids s HK d Hd' c Hc) as [H|H]; [|right; now right].
      destruct (Nat.eq_dec n c) as [->|Hne]; [right; now left|left]. rewrite Hd. destruct (Nat.eqb_spec n c); [contradiction|exact H].
    - rewrite Emans, Eproc. intros m [<-|Hm] H3; [now apply Hn|]. destruct (k_out s HK m Hm H3); auto.
    - exact Hbp.
    - rewrite Emans, Efins. apply (k_fins s HK).
    - rewrite Emans, Efins. apply (k_reg s HK).
    - rewrite !Hd, Emans. intros Hp. apply (k_pre s HK). destruct (Nat.eqb n 0), (Nat.eqb n 1); destruct Hp; auto; discriminate.
    - rewrite Emans. apply (k_mp s HK).
  Qed.

  Lemma adds_keeps : forall l s m, has_h s m = true -> has_h (adds s l) m = true.
  Proof. induction l as [|x l IH]; intros s m H; cbn [adds fold_left]; [exact H|]. apply IH. now apply add_h_keeps. Qed.
  Lemma adds_covers : forall l s p, In p l -> has_h (adds s l) (fst p) = true \/ In (fst p) (proc s).
  Proof.
    induction l as [|x l IH]; intros s p Hp; [destruct Hp|]. cbn [adds fold_left]. fold (adds (add_h s (fst x) (snd x)) l).
    destruct (add_h_other s (fst x) (snd x)) as (A1 & _).
    destruct Hp as [->|Hp]; [|rewrite <- A1; now apply IH].
    destruct (add_h_cases s (fst p) (snd p)) as [[E [H|H]]|(E & _ & _)].
    - right. now apply memn_In.
    - left. apply adds_keeps. now rewrite E.
    - left. apply adds_keeps. rewrite E, has_h_upd_hs, hget_app. destruct (hget (fst p) (hs s)); [reflexivity|]. cbn. now rewrite Nat.eqb_refl.
  Qed.

  Lemma blob_K s d n s1 : K s -> n = d -> 3 <= d -> import_blob a s d d false = inl s1 -> K (after_del n s1).
  Proof.
    intros HK -> H3. unfold import_blob. destruct (memn d (bpresent s)) eqn:Em.
    - intro H; inversion H; subst s1. apply (K_simple s s d HK); auto; [apply (k_bp s HK)|]. intros _. right. apply (k_bp s HK). now apply memn_In.
    - rewrite Nat.eqb_refl. intro H; inversion H; subst s1; clear H. apply (K_simple s _ d HK); cbn [hs proc mans fins out bpresent]; auto.
      + intros e He. apply in_or_app. now left.
      + intros x [<-|Hx]; apply in_or_app; [right; now left|left; now apply (k_bp s HK)].
      + intros _. right. apply in_or_app. right. now left.
  Qed.

  Lemma man_K s d k child : W s -> K s -> hget d (hs s) = Some (HMan k child d) -> 3 <= d -> present d ->
    K (after_del d (handle_man a s d child)).
  Proof.
    intros HW HK Hg H3 Hp.
    assert (Hhas : has_h s d = true) by (apply has_h_get; eauto).
    destruct (no_markers_of_big s d HW Hhas H3) as (N0 & N1 & N2).
    destruct (handle_man_adds s d child H3 Hp) as (l & Hl & -> & Hcov). cbv zeta.
    destruct (adds_spec l s (fun p Hin => proj1 (Hl p Hin)) (w_h s HW)) as (A1 & A2 & A3 & A4 & A5 & A6 & A7 & A8 & A9 & A10 & A11).
    set (s1 := adds s l) in *.
    assert (Hsmall : forall m, m < 3 -> has_h s1 m = false).
    { intros m Hm. destruct (has_h s1 m) eqn:E; [|reflexivity]. exfalso. destruct (A11 m E) as [H|H].
      - destruct m as [|[|[|m]]]; try lia; congruence.
      - apply in_map_iff in H as (p & <- & Hin). destruct (Hl p Hin). lia. }
    assert (Hcase : forall c, has_h s1 c = true \/ In c (proc s) -> has_h (after_del d (mkSt (hs s1) (proc s1) (links s1) (fins s1 ++ [FPush d child]) (out s1) (bpresent s1) (mpresent s1) true
                                   (foundL s1) (foundI s1) (dfound s1) (d :: mans s1) (dcfg s1) (dlayers s1))) c = true \/ In c (d :: proc s)).
    { intros c [H|H]; [|right; now right]. destruct (Nat.eq_dec d c) as [->|Hne]; [right; now left|left].
      rewrite has_after_del. destruct (Nat.eqb_spec d c); [contradiction|exact H]. }
    constructor; cbn [after_del mans proc out bpresent fins].
    - rewrite A2, A9. intros d' [<-|Hd'] c Hc.
      + apply Hcase. apply Hcov in Hc. apply in_map_iff in Hc as (p & <- & Hin). apply (adds_covers l s p Hin).
      + apply Hcase. destruct (k_kids s HK d' Hd' c Hc) as [H|H]; [left; now apply A10|now right].
    - rewrite A2, A9, A5. intros m [<-|Hm] Hm3; [left; now left|]. destruct (k_out s HK m Hm Hm3) as [H|H]; [left; now right|now right].
    - intros x Hx. unfold s1 in *. assert (Eb : bpresent (adds s l) = bpresent s).
      { clear. induction l as [|p l IH] in s |- *; cbn [adds fold_left]; [reflexivity|]. fold (adds (add_h s (fst p) (snd p)) l). rewrite IH. apply add_h_other. }
      rewrite Eb in Hx. rewrite A5. now apply (k_bp s HK).
    - rewrite A9, A4. intros d' [<-|Hd']; [exists child; apply in_or_app; right; now left|]. destruct (k_fins s HK d' Hd') as (ch & Hch). exists ch. apply in_or_app. now left.
    - rewrite A9, A4. intros d' ch Hin. apply in_app_or in Hin as [Hin|[Hin|[]]]; [right; now apply (k_reg s HK d' ch)|inversion Hin; now left].
    - rewrite !has_after_del. replace (Nat.eqb d 0) with false by (symmetry; apply Nat.eqb_neq; lia). replace (Nat.eqb d 1) with false by (symmetry; apply Nat.eqb_neq; lia).
      change (has_h s1 0 = true \/ has_h s1 1 = true -> d :: mans s1 = []). rewrite (Hsmall 0), (Hsmall 1) by lia. intros [H|H]; discriminate.
    - rewrite A9. intros d' [<-|Hd']; [auto|now apply (k_mp s HK)].
  Qed.

  Lemma marker_K s n s' s1 : W s -> K s -> has_h s n = true -> n = 0 \/ n = 1 ->
    hs s' = hs s -> proc s' = proc s -> mans s' = mans s -> fins s' = fins s -> out s' = out s -> bpresent s' = bpresent s ->
    (if has_h s (1 - n) then inl s' else oci_handler a q s') = inl s1 -> K (after_del n s1).
  Proof.
    intros HW HK Hn Hn01 Ehs Eproc Emans Efins Eout Ebp.
    assert (Hpre : has_h s 0 = true \/ has_h s 1 = true) by (destruct Hn01; subst n; auto).
    destruct (w_pre s HW Hpre) as (P1 & P2 & P3). pose proof (k_pre s HK Hpre) as Hm0.
    assert (Hh1 : forall m, has_h s' m = has_h s m) by (intro m; unfold has_h; now rewrite Ehs).
    destruct (has_h s (1 - n)) eqn:Eo.
    - intro H; inversion H; subst s1. apply (K_simple s s' n HK); auto.
      + rewrite Eout. auto.
      + rewrite Ebp, Eout. apply (k_bp s HK).
      + intro H3. destruct Hn01; subst n; lia.
    - rewrite (oci_result s'); [|intros m Hm; apply P1; now rewrite <- Hh1|intros m Hm; rewrite Eproc in Hm; now apply P2].
      intro H; inversion H; subst s1; clear H.
      constructor; cbn [after_del mans proc out bpresent fins]; rewrite ?Emans, ?Hm0, ?Eproc, ?Eout, ?Ebp, ?Efins, ?P3.
      + intros d [].
      + intros m [<-|Hm] H3; [destruct Hn01; subst n; lia|specialize (P2 m Hm); lia].
      + apply (k_bp s HK).
      + intros d [].
      + intros d ch [H|[]]; discriminate.
      + reflexivity.
      + intros d [].
  Qed.

  Lemma step_K s n h c s1 : W s -> K s -> hget n (hs s) = Some h -> In (EFile n c) es -> run_h a q s h c = inl s1 -> K (after_del n s1).
  Proof.
    intros HW HK Hg He. destruct (w_h s HW n h Hg) as [Hok Hnp].
    assert (Hhas : has_h s n = true) by (apply has_h_get; eauto).
    destruct h as [| | |k child d|d| |ps]; cbn [ok_handler] in Hok; try contradiction.
    - subst n. cbn [run_h run_h_gen]. rewrite Hlay, (w_fi s HW). intro E.
      apply (marker_K s 0 (set_found s true (negb (has_h s 1))) s1 HW HK Hhas (or_introl eq_refl)); try reflexivity.
      cbn [Nat.sub]. destruct (has_h s 1); cbn [negb] in *; exact E.
    - subst n. cbn [run_h run_h_gen]. rewrite (w_fl s HW). intro E.
      apply (marker_K s 1 (set_found s (negb (has_h s 0)) true) s1 HW HK Hhas (or_intror eq_refl)); try reflexivity.
      cbn [Nat.sub]. destruct (has_h s 0); cbn [negb] in *; exact E.
    - subst n. cbn [run_h run_h_gen]. intro H; inversion H; subst s1. apply (K_simple s _ 2 HK); cbn; auto; [apply (k_bp s HK)|lia].
    - destruct Hok as (-> & H3 & Hp & Hk). assert (c = d) by (apply Hself; auto). subst c.
      cbn [run_h run_h_gen]. rewrite Nat.eqb_refl. cbn [andb].
      destruct k.
      + specialize (Hk eq_refl). destruct (content a d) eqn:Ec; [| |congruence]; (intro H; inversion H; subst s1; now apply (man_K s d KMan child)).
      + now apply blob_K.
      + destruct (content a d) eqn:Ec; [| |now apply blob_K]; (intro H; inversion H; subst s1; now apply (man_K s d KUnk child)).
      + now apply blob_K.
    - destruct Hok as (-> & H3 & Hp). assert (c = d) by (apply Hself; auto). subst c. cbn [run_h run_h_gen]. now apply blob_K.
  Qed.

  (* through an entry, a pass, the re-scans *)
  Lemma entry_K s n c : W s -> K s -> In (EFile n c) es ->
    match run_list a q s [n] c false with PErr _ => True | PDone s' => K s' | PCont s' => K s' end.
  Proof.
    intros HW HK He. cbn [run_list]. destruct (hget n (hs s)) as [h|] eqn:Eg; [|exact HK].
    destruct (step_W s n h c HW Eg He) as (s1 & E & _). fold (run_h a q s h c). rewrite E. fold (after_del n s1).
    pose proof (step_K s n h c s1 HW HK Eg He E) as HK2.
    destruct (hs (after_del n s1)); [exact HK2|]. cbn [run_list]. exact HK2.
  Qed.
  Lemma pass_K : forall r s, (forall e, In e r -> In e es) -> W s -> K s ->
    match pass a q s r with PErr _ => True | PDone s' => K s' | PCont s' => K s' end.
  Proof.
    induction r as [|e r IH]; intros s Hr HW HK; cbn [pass]; [exact HK|].
    destruct (Hfiles e (Hr e (or_introl eq_refl))) as (n & c & ->).
    rewrite (link_list_nil s n (w_links s HW)). cbn [app].
    pose proof (entry_W s n c HW (Hr _ (or_introl eq_refl))) as HE.
    pose proof (entry_K s n c HW HK (Hr _ (or_introl eq_refl))) as HEK.
    destruct (run_list a q s [n] c false) as [s2|s2|err]; [|exact HEK|exact I].
    destruct HE as (HW2 & _). apply (IH s2 (fun e He => Hr e (or_intror He)) HW2 HEK).
  Qed.
  Lemma K_upd_added s b : K s -> K (upd_added s b).
  Proof. intros [H1 H2 H3 H4 H5 H6 H7]. constructor; auto. Qed.

  Lemma read_all_K : forall k s s', W s -> K s -> read_all k a q s = Some (inl s') -> K s'.
  Proof.
    induction k as [|k IH]; intros s s' HW HK; cbn [read_all].
    - destruct (hs s); [intro H; inversion H; now subst|discriminate].
    - destruct (hs s) eqn:Ehs; [intro H; inversion H; now subst|].
      pose proof (pass_W es (upd_added s false) (fun e He => He) (W_upd_added s false HW)) as HP.
      pose proof (pass_K es (upd_added s false) (fun e He => He) (W_upd_added s false HW) (K_upd_added s false HK)) as HPK.
      destruct (pass a q (upd_added s false) es) as [s1|s1|err]; [| |discriminate].
      + destruct (added s1); [|discriminate]. apply IH; [apply HP|exact HPK].
      + intro H; inversion H; now subst.
  Qed.

  Lemma K_init : K (st0 [] []).
  Proof. constructor; cbn; auto; try (intros ? []); intros ? ? []. Qed.

  (* the read phase does not touch the target's manifests *)
  Lemma adds_mp : forall l s, mpresent (adds s l) = mpresent s.
  Proof. induction l as [|p l IH]; intro s; cbn [adds fold_left]; [reflexivity|]. fold (adds (add_h s (fst p) (snd p)) l). rewrite IH. apply add_h_other. Qed.
  Lemma run_h_mp s h c s1 : run_h a q s h c = inl s1 -> mpresent s1 = mpresent s.
  Proof.
    assert (Hoci : forall s0 s2, oci_handler a q s0 = inl s2 -> mpresent s2 = mpresent s0).
    { intros s0 s2. unfold oci_handler. match goal with |- context [match ?p with Some _ => _ | None => _ end] => destruct p as [[d k]|] end; [|discriminate].
      intro H; inversion H. cbn [mpresent]. destruct (add_h_other (upd_hs s0 (hdel N_DOCKER (hs s0))) d (HMan k false d)) as (_ & _ & _ & _ & _ & _ & _ & _ & _ & E). exact E. }
    assert (Hman : forall d child, mpresent (handle_man a s d child) = mpresent s).
    { intros d child. unfold handle_man. cbn [mpresent].
      assert (F1 : forall ch s0, mpresent (fold_left (fun s' (p : nat * cls) => add_h s' (fst p) (HMan (snd p) true (fst p))) ch s0) = mpresent s0)
        by (induction ch as [|p ch IH]; intro s0; cbn; [reflexivity|rewrite IH; apply add_h_other]).
      assert (F2 : forall ls s0, mpresent (fold_left (fun s'' l => add_h s'' l (HBlob l)) ls s0) = mpresent s0)
        by (induction ls as [|p ls IH]; intro s0; cbn; [reflexivity|rewrite IH; apply add_h_other]).
      destruct (content a d) as [ch|cfg layers|]; [apply F1| |reflexivity]. rewrite F2. destruct cfg; [apply add_h_other|reflexivity]. }
    assert (Hblob : forall d c0 dr s2, import_blob a s d c0 dr = inl s2 -> mpresent s2 = mpresent s).
    { intros d c0 dr s2. unfold import_blob. destruct (memn d (bpresent s)); [intro H; inversion H; reflexivity|]. destruct (if dr then _ else _); [|discriminate]. intro H; inversion H; reflexivity. }
    destruct h as [| | |k child d|d| |ps]; cbn [run_h run_h_gen].
    - destruct (layout_ok a); [|intro H; inversion H; reflexivity]. destruct (foundI s); [intro H; apply Hoci in H; exact H|intro H; inversion H; reflexivity].
    - destruct (foundL s); [intro H; apply Hoci in H; exact H|intro H; inversion H; reflexivity].
    - intro H; inversion H; reflexivity.
    - destruct k; try (apply Hblob).
      + destruct (_ && _); [|discriminate]. intro H; inversion H. apply Hman.
      + destruct (_ && _); [intro H; inversion H; apply Hman|apply Hblob].
    - apply Hblob.
    - intro H; inversion H; reflexivity.
    - intro H; inversion H; reflexivity.
  Qed.
  Lemma run_list_mp : forall names s c used, match run_list a q s names c used with PCont s' | PDone s' => mpresent s' = mpresent s | PErr _ => True end.
  Proof.
    induction names as [|n names IH]; intros s c used; cbn [run_list]; [reflexivity|].
    destruct (hget n (hs s)) as [h|]; [|apply IH]. destruct used; [reflexivity|].
    destruct (run_h a q s h c) as [s1|e] eqn:Eh; [|exact I]. apply run_h_mp in Eh.
    match goal with |- context [match hs ?x with [] => _ | _ => _ end] => set (s2 := x) end.
    assert (E2 : mpresent s2 = mpresent s) by (unfold s2; cbn; exact Eh).
    destruct (hs s2); [exact E2|]. specialize (IH s2 c true). destruct (run_list a q s2 names c true); try exact I; congruence.
  Qed.
  Lemma pass_mp : forall r s, match pass a q s r with PCont s' | PDone s' => mpresent s' = mpresent s | PErr _ => True end.
  Proof.
    induction r as [|[n c|n t] r IH]; intro s; cbn [pass]; [reflexivity| |].
    - destruct (link_list s n) as [l|]; [|exact I]. pose proof (run_list_mp (l ++ [n]) s c false) as H.
      destruct (run_list a q s (l ++ [n]) c false) as [s1|s1|e]; auto. specialize (IH s1). destruct (pass a q s1 r); try exact I; congruence.
    - destruct (memn n (lget t (links s))); [apply IH|].
      match goal with |- context [if added ?x then _ else _] => set (s1 := x) end.
      assert (E1 : mpresent s1 = mpresent s) by reflexivity.
      destruct (added s1).
      + specialize (IH s1). destruct (pass a q s1 r); try exact I; congruence.
      + destruct (link_list s1 t) as [l|]; [|exact I].
        match goal with |- match pass a q ?x r with _ => _ end => assert (E2 : mpresent x = mpresent s) by (destruct (existsb _ _); reflexivity); specialize (IH x); destruct (pass a q x r) end; try exact I; congruence.
  Qed.
  Lemma read_all_mp : forall k s s', read_all k a q s = Some (inl s') -> mpresent s' = mpresent s.
  Proof.
    induction k as [|k IH]; intros s s'; cbn [read_all].
    - destruct (hs s); [intro H; inversion H; reflexivity|discriminate].
    - destruct (hs s); [intro H; inversion H; reflexivity|].
      pose proof (pass_mp es (upd_added s false)) as Hp. destruct (pass a q (upd_added s false) es) as [s1|s1|e]; [| |discriminate].
      + destruct (added s1); [|discriminate]. intro H. apply IH in H. rewrite H, Hp. reflexivity.
      + intro H; inversion H; subst. exact Hp.
  Qed.

  (* ---------- the deferred pushes deliver every handled manifest ---------- *)
  Variable rank : nat -> nat.
  Hypothesis rank_dec : forall d ch c, content a d = NIndex ch -> In c (map fst ch) -> rank c < rank d.
  Hypothesis rank_fuel : forall d, present d -> rank d < length es + 2.

  Lemma after_In P o x : In x (after P o) <-> In x P \/ In (EvPut x) o \/ In (EvTag x) o.
  Proof.
    revert P. induction o as [|e o IH]; intro P; cbn; [tauto|]. fold (after (after1 P e) o). rewrite IH.
    destruct e; cbn; split; intros H; repeat (destruct H as [H|H]); auto; try (inversion H; subst; auto); try discriminate.
  Qed.

  Definition put_of (reg : list nat) (d : nat) (e : ev) : Prop := exists x, e = EvPut x /\ (x = d \/ In x reg).
  Lemma put_man_out2 reg d s : exists o, out (put_man d s) = out s ++ o /\ Forall (put_of reg d) o.
  Proof. unfold put_man. destruct (memn d (mpresent s)); [exists []; rewrite app_nil_r; auto|exists [EvPut d]; split; [reflexivity|constructor; [exists d; auto|constructor]]]. Qed.
  Lemma put_of_weaken reg d d' e : In d reg -> put_of reg d e -> put_of reg d' e.
  Proof. intros Hd (x & E & [E2|H]); subst; [exists d|exists x]; auto. Qed.
  Lemma fpush_out2 : forall fuel reg d sd, exists o, out (fst (fpush fuel a reg d sd)) = out (fst sd) ++ o /\ Forall (put_of reg d) o.
  Proof.
    induction fuel as [|f IH]; intros reg d sd; cbn [fpush]; [exists []; rewrite app_nil_r; auto|].
    destruct (memn d (snd sd)); [exists []; rewrite app_nil_r; auto|]. cbn [fst snd].
    assert (H : forall ch acc, exists o, out (fst (fold_left (fun acc (p : nat * cls) => if memn (fst p) reg then fpush f a reg (fst p) acc else acc) ch acc)) = out (fst acc) ++ o /\ Forall (put_of reg d) o).
    { induction ch as [|p ch IHc]; intro acc; cbn [fold_left]; [exists []; rewrite app_nil_r; auto|].
      destruct (IHc (if memn (fst p) reg then fpush f a reg (fst p) acc else acc)) as (o2 & E2 & N2).
      destruct (memn (fst p) reg) eqn:Em.
      - destruct (IH reg (fst p) acc) as (o1 & E1 & N1). exists (o1 ++ o2). rewrite E2, E1, app_assoc. split; [reflexivity|].
        apply Forall_app. split; [|exact N2]. eapply Forall_impl; [|exact N1]. intros e He. apply (put_of_weaken reg (fst p)); [now apply memn_In|exact He].
      - exists o2. auto. }
    destruct (content a d) as [ch| |].
    - destruct (H ch (fst sd, d :: snd sd)) as (o1 & E1 & N1).
      destruct (put_man_out2 reg d (fst (fold_left (fun acc (p : nat * cls) => if memn (fst p) reg then fpush f a reg (fst p) acc else acc) ch (fst sd, d :: snd sd)))) as (o2 & E2 & N2).
      exists (o1 ++ o2). rewrite E2, E1. cbn [fst]. rewrite app_assoc. split; [reflexivity|]. apply Forall_app; auto.
    - cbn [fst]. apply put_man_out2.
    - cbn [fst]. apply put_man_out2.
  Qed.

  Lemma run_fins_all reg s0 fuel : forall l sd, (forall x, In x l -> exists d ch, x = FPush d ch /\ In d reg /\ rank d < fuel) ->
    FInv a reg s0 (fst sd) (snd sd) [] ->
    exists sd', (forall tail, run_fins_from fuel a reg (l ++ tail) sd = run_fins_from fuel a reg tail sd') /\
                FInv a reg s0 (fst sd') (snd sd') [] /\ incl (mpresent (fst sd)) (mpresent (fst sd')) /\
                (forall d ch, In (FPush d ch) l -> In d (mpresent (fst sd'))) /\
                exists o, out (fst sd') = out (fst sd) ++ o /\ Forall (fun e => exists x, e = EvPut x /\ In x reg) o.
  Proof.
    induction l as [|f l IH]; intros sd Hl HI.
    - exists sd. split; [reflexivity|]. split; [exact HI|]. split; [intros x Hx; exact Hx|]. split; [intros d ch []|]. exists []. rewrite app_nil_r. auto.
    - destruct (Hl f (or_introl eq_refl)) as (d & ch & -> & Hreg & Hrk).
      destruct sd as [s1 d1]. cbn [fst snd] in HI.
      destruct (fpush_inv a reg rank rank_dec s0 fuel d s1 d1 [] Hrk (fun x (H : In x []) => match H with end) HI) as (F1 & F2 & F3 & F4).
      destruct (IH (fpush fuel a reg d (s1, d1))) as (sd' & E & FI & Inc & All & o & O & N); [intros x Hx; apply Hl; now right|exact F1|].
      exists sd'. split; [intro tail; cbn [app run_fins_from]; apply E|]. split; [exact FI|]. split; [intros x Hx; apply Inc, F3, Hx|].
      split.
      + intros d' ch' [Hin|Hin]; [inversion Hin; subst; apply Inc, F2|now apply (All d' ch')].
      + destruct (fpush_out2 fuel reg d (s1, d1)) as (o1 & O1 & N1). exists (o1 ++ o). rewrite O, O1, app_assoc. split; [reflexivity|].
        apply Forall_app. split; [|exact N]. eapply Forall_impl; [|exact N1]. intros e (x & Ee & [Ex|Hx]); subst; eauto.
  Qed.

  Theorem import_delivers_closure : exists evs, import (length es + 2) a q [] [] = Some (inl (evs ++ [EvTag root])) /\
    In (EvPut root) evs /\ (forall d, In (EvPut d) evs -> forall c, child d c -> In (EvPut c) evs \/ In (EvBlob c) evs).
  Proof.
    destruct (read_all_W (length es + 2) (st0 [] []) W_init) as (s' & E & HW' & Hh); [cbn; lia|].
    pose proof (read_all_K _ _ _ W_init K_init E) as HK'. pose proof (read_all_mp _ _ _ E) as Hmp. cbn in Hmp.
    pose proof (read_all_ext a q _ _ _ E) as (l0 & El0 & Fl0). cbn in El0.
    unfold import. rewrite E.
    assert (N0 : has_h s' 0 = false) by (unfold has_h; now rewrite Hh).
    assert (N1 : has_h s' 1 = false) by (unfold has_h; now rewrite Hh).
    destruct (w_fins s' HW' N0 N1) as (r & R1 & R2 & R3).
    assert (Rm : In root (mans s')) by (destruct R3 as [R3|R3]; [exact R3|unfold has_h in R3; rewrite Hh in R3; discriminate]).
    unfold run_fins. rewrite R1. cbn [rev].
    set (reg := registered (rev r ++ [FTag root])).
    assert (Hreg : forall d, In d reg <-> In d (mans s')).
    { intro d. unfold reg, registered. rewrite in_flat_map. split.
      - intros (f & Hf & Hd). apply in_app_or in Hf as [Hf|[<-|[]]]; [|destruct Hd]. apply in_rev in Hf. destruct f as [x|x ch]; [destruct Hd|]. destruct Hd as [<-|[]].
        apply (k_reg s' HK' x ch). rewrite R1. now right.
      - intro Hd. destruct (k_fins s' HK' d Hd) as (ch & Hch). rewrite R1 in Hch. destruct Hch as [Hch|Hch]; [discriminate|].
        exists (FPush d ch). split; [apply in_or_app; left; now apply in_rev in Hch || (apply -> in_rev; exact Hch)|now left]. }
    assert (H0 : FInv a reg s' (fst (s', @nil nat)) (snd (s', @nil nat)) []).
    { exists []. cbn. rewrite app_nil_r. repeat split; auto. }
    destruct (run_fins_all reg s' (length es + 2) (rev r) (s', [])) as (sd' & Ef & FI & _ & All & o & O & N); [|exact H0|].
    { intros x Hx. apply in_rev in Hx. destruct x as [d|d ch]; [exfalso; now apply (R2 d)|]. exists d, ch. split; [reflexivity|].
      assert (Hm : In d (mans s')) by (apply (k_reg s' HK' d ch); rewrite R1; now right). split; [now apply Hreg|]. apply rank_fuel. apply (k_mp s' HK' d Hm). }
    rewrite (Ef [FTag root]). cbn [run_fins_from].
    destruct FI as (o' & O' & _ & Mp & _ & Mn). cbn [fst] in O. rewrite O in O'. apply app_inv_head in O'. subst o'.
    rewrite Mn. apply memn_In in Rm. rewrite Rm. cbn [out]. apply memn_In in Rm.
    exists (out s' ++ o). rewrite O. split; [reflexivity|].
    assert (Hput : forall d, In d (mans s') -> In (EvPut d) o).
    { intros d Hd. destruct (k_fins s' HK' d Hd) as (ch & Hch). rewrite R1 in Hch. destruct Hch as [Hch|Hch]; [discriminate|].
      assert (Hin : In d (mpresent (fst sd'))) by (apply (All d ch); apply -> in_rev; exact Hch).
      rewrite Mp, Hmp in Hin. apply after_In in Hin as [[]|[H|H]]; [exact H|].
      exfalso. rewrite Forall_forall in N. destruct (N _ H) as (x & Hx & _). discriminate. }
    split; [apply in_or_app; right; now apply Hput|].
    intros d Hd c Hc. apply in_app_or in Hd as [Hd|Hd].
    - exfalso. rewrite El0 in Hd. rewrite Forall_forall in Fl0. apply (Fl0 _ Hd).
    - rewrite Forall_forall in N. destruct (N _ Hd) as (x & Hx & Hxr). inversion Hx; subst x. apply Hreg in Hxr.
      destruct (k_mp s' HK' d Hxr) as (Hd3 & Hdp).
      assert (Hc3 : 3 <= c).
      { pose proof (Hclosed d Hdp Hd3) as Hcl. unfold child in Hc. destruct (content a d) as [ch|cfg ls|]; [|destruct Hcl as [Hc1 Hc2]; destruct Hc as [Hc|Hc]; [now apply Hc1|now apply Hc2]|destruct Hc].
        apply in_map_iff in Hc as ([c' k] & <- & Hin). now apply (Hcl c' k). }
      destruct (k_kids s' HK' d Hxr c Hc) as [H|H]; [unfold has_h in H; rewrite Hh in H; discriminate|].
      destruct (k_out s' HK' c H Hc3) as [Hm|Hb]; [left; apply in_or_app; right; now apply Hput|right; apply in_or_app; now left].
  Qed.
End Complete.
