(* Proofs/C16.v — lemmas about the platform model. *)
From Coq Require Import List String Ascii ZArith Bool Lia.
From Verif Require Import Base.StrX Model.C16_Platform.
Import ListNotations.
Open Scope string_scope.

Ltac seq a b := destruct (String.eqb_spec a b).

(* ---------- normalize is idempotent ---------- *)
Ltac lit a l := destruct (a =? l) eqn:?; [match goal with H : (a =? l) = true |- _ => apply String.eqb_eq in H; subst a end|].

Lemma norm_os_idem o : norm_os (norm_os o) = norm_os o.
Proof. unfold norm_os. destruct (o =? "macos") eqn:E; [reflexivity|]. now rewrite E. Qed.

Lemma norm_av_idem a v : norm_av (fst (norm_av a v)) (snd (norm_av a v)) = norm_av a v.
Proof.
  unfold norm_av.
  lit a "i386"; [reflexivity|].
  lit a "x86_64"; [cbn; destruct (v =? "v1") eqn:E; cbn; [reflexivity| now rewrite E]|].
  lit a "x86-64"; [cbn; destruct (v =? "v1") eqn:E; cbn; [reflexivity| now rewrite E]|].
  lit a "amd64"; [cbn; destruct (v =? "v1") eqn:E; cbn; [reflexivity| now rewrite E]|].
  cbn [orb].
  lit a "aarch64"; [cbn; destruct (v =? "8") eqn:E; cbn; [reflexivity|]; destruct (v =? "v8") eqn:E2; cbn; [reflexivity|]; now rewrite E, E2|].
  lit a "arm64"; [cbn; destruct (v =? "8") eqn:E; cbn; [reflexivity|]; destruct (v =? "v8") eqn:E2; cbn; [reflexivity|]; now rewrite E, E2|].
  cbn [orb].
  lit a "armhf"; [reflexivity|].
  lit a "armel"; [reflexivity|].
  lit a "arm"; [cbn;
    lit v ""; [reflexivity|]; lit v "7"; [reflexivity|]; cbn [orb];
    lit v "5"; [reflexivity|]; lit v "6"; [reflexivity|]; lit v "8"; [reflexivity|]; cbn;
    repeat match goal with H : (_ =? _) = false |- _ => rewrite H; clear H end; reflexivity|].
  cbn [fst snd].
  repeat match goal with H : (_ =? _) = false |- _ => rewrite H; clear H end. reflexivity.
Qed.

Lemma normalize_idem p : normalize (normalize p) = normalize p.
Proof.
  unfold normalize; cbn [arch variant os osver osfeat feat].
  rewrite norm_av_idem, norm_os_idem. reflexivity.
Qed.

(* ---------- semver comparison: reflexive zero, "<" transitive and asymmetric ---------- *)
Lemma semver_cmp_l_refl a : semver_cmp_l a a = 0%Z.
Proof.
  induction a as [|x a IH]; cbn; [reflexivity|].
  destruct (atoi x) as [i|]; [|reflexivity].
  rewrite Z.gtb_ltb, Z.ltb_irrefl. exact IH.
Qed.

Lemma gtb_false_irrefl i : (i >? i)%Z = false.
Proof. rewrite Z.gtb_ltb. apply Z.ltb_irrefl. Qed.

Lemma semver_lt_trans : forall a b c,
  semver_cmp_l a b = (-1)%Z -> semver_cmp_l b c = (-1)%Z -> semver_cmp_l a c = (-1)%Z.
Proof.
  induction a as [|x a IH]; intros b c Hab Hbc; cbn in Hab; [discriminate|].
  destruct b as [|y b]; [discriminate|].
  cbn in Hbc. destruct c as [|z c]; [discriminate|].
  cbn. destruct (atoi x) as [i|], (atoi y) as [j|], (atoi z) as [k|]; try discriminate; try reflexivity.
  rewrite Z.gtb_ltb in *.
  destruct (Z.ltb_spec i j) as [Hij|Hij].
  - destruct (Z.ltb_spec j k) as [Hjk|Hjk].
    + destruct (Z.ltb_spec i k); [reflexivity|lia].
    + destruct (Z.ltb_spec k j); [discriminate|]. destruct (Z.ltb_spec i k); [reflexivity|lia].
  - destruct (Z.ltb_spec j i); [discriminate|].
    destruct (Z.ltb_spec j k) as [Hjk|Hjk].
    + destruct (Z.ltb_spec i k); [reflexivity|lia].
    + destruct (Z.ltb_spec k j); [discriminate|].
      destruct (Z.ltb_spec i k); [lia|]. destruct (Z.ltb_spec k i); [lia|].
      eapply IH; eassumption.
Qed.

Lemma semver_lt_asym : forall a b, semver_cmp_l a b = (-1)%Z -> semver_cmp_l b a <> (-1)%Z.
Proof.
  induction a as [|x a IH]; intros b Hab; cbn in Hab; [discriminate|].
  destruct b as [|y b]; [discriminate|]. cbn.
  destruct (atoi x) as [i|], (atoi y) as [j|]; try discriminate.
  rewrite Z.gtb_ltb in Hab |- *.
  destruct (Z.ltb_spec i j), (Z.ltb_spec j i); try lia; try discriminate.
  apply IH. exact Hab.
Qed.

(* ---------- the key form of Better ---------- *)
Definition b2z (b : bool) : Z := if b then 1%Z else 0%Z.

Record key := mkKey { kw : Z; kv : Z; kb : bool; ks : string }.

(* key of an already normalized platform x against normalized host h *)
Definition key_of (h x : plat) : key :=
  mkKey (4 * b2z (os x =? os h) + 2 * b2z (arch x =? arch h) + b2z (variant x =? variant h))
        (variant_ver (variant x)) (osver x =? osver h) (osver x).

Definition key_gt (t p : key) : bool :=
  if (kw t >? kw p)%Z then true else if (kw t <? kw p)%Z then false
  else if (kv t >? kv p)%Z then true else if (kv t <? kv p)%Z then false
  else if kb p then false else if kb t then true else (semver_cmp (ks p) (ks t) <? 0)%Z.

Lemma semver_cmp_vals a b : semver_cmp_l a b = (-1)%Z \/ semver_cmp_l a b = 0%Z \/ semver_cmp_l a b = 1%Z.
Proof.
  revert b; induction a as [|x a IH]; intros b; cbn; [auto|].
  destruct b as [|y b]; [auto|]. destruct (atoi x), (atoi y); auto.
  destruct (_ <? _)%Z; [auto|]. destruct (_ >? _)%Z; auto.
Qed.

Lemma lvl_str (t p h : string) :
  (if negb (p =? t) then if t =? h then Some true else if p =? h then Some false else None else None)
  = (if (t =? h) && negb (p =? h) then Some true else if (p =? h) && negb (t =? h) then Some false else None).
Proof. seq p t; seq t h; seq p h; cbn; try reflexivity; congruence. Qed.

Lemma lvl_var (vt vp vh : string) :
  (if negb (vp =? vt) then
     if vt =? vh then Some true else if vp =? vh then Some false
     else if (variant_ver vt >? variant_ver vp)%Z then Some true
          else if (variant_ver vt <? variant_ver vp)%Z then Some false else None
   else None)
  = (if (vt =? vh) && negb (vp =? vh) then Some true else if (vp =? vh) && negb (vt =? vh) then Some false
     else if (variant_ver vt >? variant_ver vp)%Z then Some true
          else if (variant_ver vt <? variant_ver vp)%Z then Some false else None).
Proof.
  seq vp vt; cbn [negb].
  - subst vp. rewrite Z.gtb_ltb, Z.ltb_irrefl. destruct (vt =? vh); reflexivity.
  - seq vt vh; seq vp vh; cbn; try reflexivity; congruence.
Qed.

Lemma lvl_osver (ot op oh : string) :
  (if negb (op =? ot) then
     if ot =? oh then true else if op =? oh then false
     else if negb (semver_cmp op ot =? 0)%Z then (semver_cmp op ot <? 0)%Z else false
   else false)
  = (if op =? oh then false else if ot =? oh then true else (semver_cmp op ot <? 0)%Z).
Proof.
  seq op ot; cbn [negb].
  - subst op. destruct (ot =? oh); [reflexivity|]. unfold semver_cmp. now rewrite semver_cmp_l_refl.
  - seq ot oh; seq op oh; try reflexivity; try congruence.
    destruct (Z.eqb_spec (semver_cmp op ot) 0) as [E|E]; cbn [negb]; [now rewrite E|reflexivity].
Qed.

Lemma better_n_key h target prev :
  better_n h target prev =
  compatible h target && key_gt (key_of h (normalize target)) (key_of h (normalize prev)).
Proof.
  unfold better_n. destruct (compatible h target); cbn [negb andb]; [|reflexivity].
  set (t := normalize target). set (p := normalize prev).
  rewrite (lvl_str (os t) (os p) (os h)), (lvl_str (arch t) (arch p) (arch h)).
  rewrite (lvl_var (variant t) (variant p) (variant h)).
  rewrite (lvl_osver (osver t) (osver p) (osver h)).
  unfold key_gt, key_of; cbn [kw kv kb ks].
  generalize (semver_cmp (osver p) (osver t) <? 0)%Z as D.
  generalize (variant_ver (variant t)) as vt, (variant_ver (variant p)) as vp.
  generalize (osver t =? osver h) as dt, (osver p =? osver h) as dp.
  destruct (os t =? os h), (os p =? os h), (arch t =? arch h), (arch p =? arch h),
           (variant t =? variant h), (variant p =? variant h); intros; cbn; try reflexivity;
    (destruct (vt >? vp)%Z; [reflexivity|]; destruct (vt <? vp)%Z; reflexivity).
Qed.

(* ---------- order properties of key_gt ---------- *)
Lemma key_gt_trans a b c : key_gt a b = true -> key_gt b c = true -> key_gt a c = true.
Proof.
  unfold key_gt. rewrite !Z.gtb_ltb.
  destruct (Z.ltb_spec (kw b) (kw a)), (Z.ltb_spec (kw a) (kw b)), (Z.ltb_spec (kw c) (kw b)),
           (Z.ltb_spec (kw b) (kw c)), (Z.ltb_spec (kw c) (kw a)), (Z.ltb_spec (kw a) (kw c));
    try lia; try discriminate; try reflexivity.
  destruct (Z.ltb_spec (kv b) (kv a)), (Z.ltb_spec (kv a) (kv b)), (Z.ltb_spec (kv c) (kv b)),
           (Z.ltb_spec (kv b) (kv c)), (Z.ltb_spec (kv c) (kv a)), (Z.ltb_spec (kv a) (kv c));
    try lia; try discriminate; try reflexivity.
  destruct (kb b); [discriminate|]. destruct (kb c); [discriminate|].
  destruct (kb a); [reflexivity|].
  intros Hx1 Hx2. apply Z.ltb_lt in Hx1, Hx2. apply Z.ltb_lt.
  unfold semver_cmp in *.
  destruct (semver_cmp_vals (split "." (ks b)) (split "." (ks a))) as [E1|[E1|E1]]; try lia.
  destruct (semver_cmp_vals (split "." (ks c)) (split "." (ks b))) as [E2|[E2|E2]]; try lia.
  rewrite (semver_lt_trans _ _ _ E2 E1). lia.
Qed.

Lemma key_gt_asym a b : key_gt a b = true -> key_gt b a = false.
Proof.
  unfold key_gt. rewrite !Z.gtb_ltb.
  destruct (Z.ltb_spec (kw b) (kw a)), (Z.ltb_spec (kw a) (kw b)); try lia; try discriminate; try reflexivity.
  destruct (Z.ltb_spec (kv b) (kv a)), (Z.ltb_spec (kv a) (kv b)); try lia; try discriminate; try reflexivity.
  destruct (kb b); [discriminate|]. destruct (kb a); [reflexivity|].
  intros Hx1. apply Z.ltb_lt in Hx1. apply Z.ltb_ge. unfold semver_cmp in *.
  destruct (semver_cmp_vals (split "." (ks b)) (split "." (ks a))) as [E1|[E1|E1]]; try lia.
  pose proof (semver_lt_asym _ _ E1) as Hn.
  destruct (semver_cmp_vals (split "." (ks a)) (split "." (ks b))) as [E2|[E2|E2]]; try lia; try congruence.
Qed.

Lemma better_trans h a b c : better_n h a b = true -> better_n h b c = true -> better_n h a c = true.
Proof.
  rewrite !better_n_key. intros H1 H2. apply andb_prop in H1 as [Ca G1]. apply andb_prop in H2 as [_ G2].
  rewrite Ca. cbn. eapply key_gt_trans; eassumption.
Qed.

Lemma better_asym h a b : better_n h a b = true -> better_n h b a = false.
Proof.
  rewrite !better_n_key. intros H1. apply andb_prop in H1 as [_ G1].
  rewrite (key_gt_asym _ _ G1). apply andb_false_r.
Qed.

Lemma better_compat h a b : better_n h a b = true -> compatible h a = true.
Proof. rewrite better_n_key. intros H1. now apply andb_prop in H1 as [Ca _]. Qed.

(* ---------- the linear scan ---------- *)
Local Open Scope list_scope.
Definition entry_at (dl : list (option plat)) (i : nat) : option plat :=
  match nth_error dl i with Some (Some p) => Some p | _ => None end.

(* invariant-carrying generalisation: [pre] = entries already scanned, offset i = |pre| *)
Lemma not_compat_not_better h x r : compatible h x = false -> better_n h x r = false.
Proof. intro H. destruct (better_n h x r) eqn:E; [|reflexivity]. apply better_compat in E. congruence. Qed.
Lemma better_irrefl h d : better_n h d d = false.
Proof. destruct (better_n h d d) eqn:Hdd; [|reflexivity]. now rewrite (better_asym _ _ _ Hdd) in Hdd. Qed.

Lemma search_loop_inv h : forall dl pre ret retPlat,
  (match ret with
   | None => forall x, In (Some x) pre -> compatible h x = false
   | Some j => entry_at (pre ++ dl) j = Some retPlat /\ compatible h retPlat = true /\
               (forall x, In (Some x) pre -> better_n h x retPlat = false)
   end) ->
  match search_loop h dl (List.length pre) ret retPlat with
  | None => ret = None /\ (forall x, In (Some x) (pre ++ dl) -> compatible h x = false)
  | Some j => exists r, entry_at (pre ++ dl) j = Some r /\ compatible h r = true /\
                        (forall x, In (Some x) (pre ++ dl) -> better_n h x r = false)
  end.
Proof.
  induction dl as [|d dl IH]; intros pre ret retPlat Hret; cbn [search_loop].
  - destruct ret as [j|].
    + destruct Hret as (Hj & Hc & Hpre). exists retPlat. rewrite app_nil_r in *. auto.
    + split; [reflexivity|]. rewrite app_nil_r. exact Hret.
  - assert (Hlen : List.length (pre ++ [d]) = S (List.length pre)) by (rewrite app_length; cbn; lia).
    assert (Happ : (pre ++ [d]) ++ dl = pre ++ d :: dl) by (rewrite <- app_assoc; reflexivity).
    assert (Hat : forall e, entry_at (pre ++ Some e :: dl) (List.length pre) = Some e).
    { intro e. unfold entry_at. rewrite nth_error_app2 by lia. now rewrite Nat.sub_diag. }
    destruct d as [d|].
    + destruct ret as [j|].
      * destruct Hret as (Hj & Hc & Hpre). destruct (better_n h d retPlat) eqn:Hb.
        -- specialize (IH (pre ++ [Some d]) (Some (List.length pre)) d). rewrite Hlen, Happ in IH.
           assert (P : entry_at (pre ++ Some d :: dl) (List.length pre) = Some d /\ compatible h d = true /\
                       (forall x, In (Some x) (pre ++ [Some d]) -> better_n h x d = false)).
           { split; [apply Hat|]. split; [eapply better_compat; eassumption|].
             intros x Hx. apply in_app_or in Hx as [Hx|[Hx|[]]].
             - destruct (better_n h x d) eqn:Hxd; [|reflexivity].
               rewrite <- (Hpre x Hx). symmetry. eapply better_trans; eassumption.
             - injection Hx as <-. apply better_irrefl. }
           specialize (IH P).
           destruct (search_loop h dl (S (List.length pre)) (Some (List.length pre)) d) as [j'|]; [exact IH|].
           destruct IH as [Hn _]. discriminate Hn.
        -- specialize (IH (pre ++ [Some d]) (Some j) retPlat). rewrite Hlen, Happ in IH. apply IH.
           split; [exact Hj|]. split; [exact Hc|].
           intros x Hx. apply in_app_or in Hx as [Hx|[Hx|[]]]; [auto|]. now injection Hx as <-.
      * destruct (compatible h d) eqn:Hb.
        -- specialize (IH (pre ++ [Some d]) (Some (List.length pre)) d). rewrite Hlen, Happ in IH.
           assert (P : entry_at (pre ++ Some d :: dl) (List.length pre) = Some d /\ compatible h d = true /\
                       (forall x, In (Some x) (pre ++ [Some d]) -> better_n h x d = false)).
           { split; [apply Hat|]. split; [exact Hb|].
             intros x Hx. apply in_app_or in Hx as [Hx|[Hx|[]]].
             - apply not_compat_not_better. now apply Hret.
             - injection Hx as <-. apply better_irrefl. }
           specialize (IH P).
           destruct (search_loop h dl (S (List.length pre)) (Some (List.length pre)) d) as [j|]; [exact IH|].
           destruct IH as [Hn _]. discriminate Hn.
        -- specialize (IH (pre ++ [Some d]) None retPlat). rewrite Hlen, Happ in IH. apply IH.
           intros x Hx. apply in_app_or in Hx as [Hx|[Hx|[]]]; [auto|]. now injection Hx as <-.
    + specialize (IH (pre ++ [None]) ret retPlat). rewrite Hlen, Happ in IH.
      assert (Hret' : match ret with
                      | None => forall x, In (Some x) (pre ++ [None]) -> compatible h x = false
                      | Some j => entry_at (pre ++ None :: dl) j = Some retPlat /\ compatible h retPlat = true /\
                                  (forall x, In (Some x) (pre ++ [None]) -> better_n h x retPlat = false)
                      end).
      { destruct ret as [j|].
        - destruct Hret as (Hj & Hc & Hpre). split; [exact Hj|]. split; [exact Hc|].
          intros x Hx. apply in_app_or in Hx as [Hx|[Hx|[]]]; [auto|discriminate].
        - intros x Hx. apply in_app_or in Hx as [Hx|[Hx|[]]]; [auto|discriminate]. }
      exact (IH Hret').
Qed.

Lemma search_spec host dl :
  match search host dl with
  | None => forall x, In (Some x) dl -> compatible (normalize host) x = false
  | Some j => exists r, entry_at dl j = Some r /\ compatible (normalize host) r = true /\
                        (forall x, In (Some x) dl -> better_n (normalize host) x r = false)
  end.
Proof.
  unfold search.
  pose proof (search_loop_inv (normalize host) dl [] None zero_plat) as H. cbn [List.length app] in H.
  specialize (H (fun x (Hx : In (Some x) []) => match Hx with end)).
  destruct (search_loop (normalize host) dl 0 None zero_plat); [exact H|]. apply H.
Qed.

(* the scan before the repair: invariant with the zero platform as the initial "previous best" *)
Lemma search_loop_old_inv h : forall dl pre ret retPlat,
  (forall x, In (Some x) pre -> better_n h x retPlat = false) ->
  (match ret with
   | None => retPlat = zero_plat
   | Some j => entry_at (pre ++ dl) j = Some retPlat /\ compatible h retPlat = true
   end) ->
  match search_loop_old h dl (List.length pre) ret retPlat with
  | None => ret = None /\ (forall x, In (Some x) dl -> better_n h x zero_plat = false)
  | Some j => exists r, entry_at (pre ++ dl) j = Some r /\ compatible h r = true /\
                        (forall x, In (Some x) (pre ++ dl) -> better_n h x r = false)
  end.
Proof.
  induction dl as [|d dl IH]; intros pre ret retPlat Hpre Hret; cbn [search_loop_old].
  - destruct ret as [j|].
    + destruct Hret as [Hj Hc]. exists retPlat. rewrite app_nil_r in *. auto.
    + split; [reflexivity|]. intros x [].
  - assert (Hlen : List.length (pre ++ [d]) = S (List.length pre)) by (rewrite app_length; cbn; lia).
    assert (Happ : (pre ++ [d]) ++ dl = pre ++ d :: dl) by (rewrite <- app_assoc; reflexivity).
    destruct d as [d|].
    + destruct (better_n h d retPlat) eqn:Hb.
      * specialize (IH (pre ++ [Some d]) (Some (List.length pre)) d).
        rewrite Hlen, Happ in IH.
        assert (P1 : forall x, In (Some x) (pre ++ [Some d]) -> better_n h x d = false).
        { intros x Hx. apply in_app_or in Hx as [Hx|[Hx|[]]].
           ++ destruct (better_n h x d) eqn:Hxd; [|reflexivity].
              rewrite <- (Hpre x Hx). symmetry. eapply better_trans; eassumption.
           ++ injection Hx as <-. apply better_irrefl. }
        assert (P2 : entry_at (pre ++ Some d :: dl) (List.length pre) = Some d /\ compatible h d = true).
        { split; [|eapply better_compat; eassumption].
          unfold entry_at. rewrite nth_error_app2 by lia. now rewrite Nat.sub_diag. }
        specialize (IH P1 P2).
        destruct (search_loop_old h dl (S (List.length pre)) (Some (List.length pre)) d) as [j|]; [exact IH|].
        destruct IH as [Hn _]. discriminate Hn.
      * specialize (IH (pre ++ [Some d]) ret retPlat). rewrite Hlen, Happ in IH.
        assert (Hpre' : forall x, In (Some x) (pre ++ [Some d]) -> better_n h x retPlat = false).
        { intros x Hx. apply in_app_or in Hx as [Hx|[Hx|[]]]; [auto|]. now injection Hx as <-. }
        specialize (IH Hpre' Hret).
        destruct (search_loop_old h dl (S (List.length pre)) ret retPlat) as [j|]; [exact IH|].
        destruct IH as [Hn Hall]. split; [exact Hn|].
        intros x [Hx|Hx]; [|auto]. injection Hx as <-. subst ret. rewrite Hret in Hb. exact Hb.
    + specialize (IH (pre ++ [None]) ret retPlat). rewrite Hlen, Happ in IH.
      assert (Hpre' : forall x, In (Some x) (pre ++ [None]) -> better_n h x retPlat = false).
      { intros x Hx. apply in_app_or in Hx as [Hx|[Hx|[]]]; [auto|discriminate]. }
      specialize (IH Hpre' Hret).
      destruct (search_loop_old h dl (S (List.length pre)) ret retPlat) as [j|]; [exact IH|].
      destruct IH as [Hn Hall]. split; [exact Hn|].
      intros x [Hx|Hx]; [discriminate|auto].
Qed.
Lemma search_old_spec host dl :
  match search_old host dl with
  | None => forall x, In (Some x) dl -> better_n (normalize host) x zero_plat = false
  | Some j => exists r, entry_at dl j = Some r /\ compatible (normalize host) r = true /\
                        (forall x, In (Some x) dl -> better_n (normalize host) x r = false)
  end.
Proof.
  unfold search_old.
  pose proof (search_loop_old_inv (normalize host) dl [] None zero_plat) as H. cbn [List.length app] in H.
  specialize (H (fun x (Hx : In (Some x) []) => match Hx with end) eq_refl).
  destruct (search_loop_old (normalize host) dl 0 None zero_plat); [exact H|]. apply H.
Qed.

(* compatible entries beat the zero platform, provided the host names an architecture *)
Lemma compatible_arch h x : compatible h x = true -> arch (normalize x) = arch (normalize h).
Proof.
  unfold compatible, compatible_n.
  repeat match goal with |- context [if ?b then _ else _] => destruct b end;
  intro H; repeat (apply andb_prop in H as [H ?]); try discriminate;
  repeat match goal with H : (_ && _) = true |- _ => apply andb_prop in H as [H ?] end;
  match goal with H : (arch _ =? arch _) = true |- _ => apply String.eqb_eq in H; now rewrite H end.
Qed.

Lemma compatible_os_other h x : compatible h x = true ->
  os (normalize x) = os (normalize h) \/ os (normalize h) <> "".
Proof.
  unfold compatible, compatible_n.
  destruct (os (normalize h) =? "linux") eqn:E1; [apply String.eqb_eq in E1; rewrite E1; right; discriminate|].
  destruct (os (normalize h) =? "windows") eqn:E2; [apply String.eqb_eq in E2; rewrite E2; right; discriminate|].
  destruct (os (normalize h) =? "darwin") eqn:E3; [apply String.eqb_eq in E3; rewrite E3; right; discriminate|].
  intro H. repeat (apply andb_prop in H as [H ?]). apply String.eqb_eq in H. left. symmetry. exact H.
Qed.

Lemma better_zero h x :
  arch (normalize h) <> "" -> compatible (normalize h) x = true -> better_n (normalize h) x zero_plat = true.
Proof.
  intros Ha Hc. rewrite better_n_key, Hc. cbn [andb].
  pose proof (compatible_arch _ _ Hc) as Harch. rewrite normalize_idem in Harch.
  unfold key_gt, key_of. cbn [kw kv kb ks].
  change (normalize zero_plat) with zero_plat. cbn [arch os variant osver zero_plat].
  rewrite Harch, String.eqb_refl.
  assert (E : ("" =? arch (normalize h)) = false) by (apply String.eqb_neq; congruence).
  rewrite E. rewrite Z.gtb_ltb.
  assert (Hos : ("" =? os (normalize h)) = false \/ (os (normalize x) =? os (normalize h)) = true).
  { destruct (compatible_os_other _ _ Hc) as [Hos|Hos]; rewrite normalize_idem in Hos.
    - right. rewrite Hos. apply String.eqb_refl.
    - left. apply String.eqb_neq. congruence. }
  generalize dependent ("" =? os (normalize h)). generalize dependent (os (normalize x) =? os (normalize h)).
  generalize ("" =? variant (normalize h)) (variant (normalize x) =? variant (normalize h)).
  intros b1 b2 b3 b4 Hos.
  match goal with |- (if (?a <? ?b)%Z then _ else _) = true => destruct (Z.ltb_spec a b) as [Hl|Hl]; [reflexivity|] end.
  exfalso. destruct Hos; subst; destruct b1, b2; try destruct b3; try destruct b4; cbn in Hl; lia.
Qed.

(* ---------- exact matches ---------- *)
Lemma match_variant h x : match_n h x = true -> variant (normalize x) = variant h /\ arch (normalize x) = arch h /\ os (normalize x) = os h.
Proof.
  unfold match_n. destruct (os h =? os (normalize x)) eqn:Eo; cbn [negb]; [|discriminate].
  apply String.eqb_eq in Eo.
  destruct (os h =? "linux"); [|destruct (os h =? "windows")]; intro H;
  repeat match goal with H : (_ && _) = true |- _ => apply andb_prop in H as [H ?] end;
  repeat match goal with H : (_ =? _) = true |- _ => apply String.eqb_eq in H end; auto.
Qed.

Lemma osver_semver_empty s : osver_semver s = "" -> s = "".
Proof.
  unfold osver_semver. destruct (Nat.ltb_spec (List.length (split "." s)) 4) as [Hl|Hl]; [auto|].
  destruct (split "." s) as [|a [|b [|c [|d l]]]]; cbn in Hl; try lia.
  cbn [firstn join]. destruct a; cbn; discriminate.
Qed.

Lemma variant_compatible_refl v : variant_compatible v v = true.
Proof. unfold variant_compatible. destruct (Z.geb_spec (variant_ver v) (variant_ver v)); [reflexivity|lia]. Qed.

Lemma match_compatible h x : match_n h x = true -> compatible_n h x = true.
Proof.
  unfold match_n, compatible_n. destruct (os h =? os (normalize x)) eqn:Eo; cbn [negb]; [|discriminate].
  apply String.eqb_eq in Eo. rewrite <- Eo.
  destruct (os h =? "linux") eqn:E1.
  - intro H. apply andb_prop in H as [Ha Hv]. apply String.eqb_eq in Hv. rewrite <- Hv, Ha, variant_compatible_refl. reflexivity.
  - destruct (os h =? "windows") eqn:E2.
    + intro H. apply andb_prop in H as [H Hs]. apply andb_prop in H as [Ha Hv].
      apply String.eqb_eq in Hv. rewrite <- Hv, Ha, variant_compatible_refl. cbn.
      unfold osver_compatible. destruct (osver h =? ""); [reflexivity|exact Hs].
    + intro H. repeat match goal with H : (_ && _) = true |- _ => apply andb_prop in H as [H ?] end.
      match goal with H : (variant h =? _) = true |- _ => apply String.eqb_eq in H; rewrite <- H end.
      rewrite variant_compatible_refl.
      repeat match goal with H : _ = true |- _ => rewrite H; clear H end.
      destruct (os h =? "darwin") eqn:E3; cbn; reflexivity.
Qed.

Definition feats_eq (h r : plat) : bool :=
  str_slice_eq (osfeat h) (osfeat (normalize r)) && str_slice_eq (feat h) (feat (normalize r)).

(* an exact match is never tied with or beaten by a merely compatible entry, except that on a
   darwin host Compatible ignores the feature lists which Match compares *)
Ltac step_if H := match type of H with (if ?c then _ else _) = _ => let v := eval vm_compute in c in change c with v in H; cbv iota in H end.

Lemma exact_beats h x r : normalize h = h ->
  match_n h x = true -> compatible h r = true -> better_n h x r = false ->
  match_n h r = true \/ ((os h =? "darwin") = true /\ feats_eq h r = false).
Proof.
  intros Hn Hm Hc Hb.
  pose proof (match_compatible _ _ Hm) as Hcx.
  assert (Hcx' : compatible h x = true) by (unfold compatible; now rewrite Hn).
  rewrite better_n_key, Hcx' in Hb. cbn [andb] in Hb.
  destruct (match_variant _ _ Hm) as (Hxv & Hxa & Hxo).
  pose proof (compatible_arch _ _ Hc) as Hra. rewrite Hn in Hra.
  unfold key_gt, key_of in Hb. cbn [kw kv kb ks] in Hb.
  rewrite Hxv, Hxa, Hxo, Hra, !String.eqb_refl in Hb. rewrite !Z.gtb_ltb in Hb.
  destruct (os (normalize r) =? os h) eqn:Ero; [|destruct (variant (normalize r) =? variant h); step_if Hb; discriminate Hb].
  destruct (variant (normalize r) =? variant h) eqn:Erv; [|step_if Hb; discriminate Hb].
  apply String.eqb_eq in Ero, Erv.
  step_if Hb.
  assert (Evv : variant_ver (variant (normalize r)) = variant_ver (variant h)) by (f_equal; exact Erv).
  rewrite Evv, Z.ltb_irrefl in Hb.
  unfold compatible in Hc. rewrite Hn in Hc. unfold compatible_n in Hc.
  unfold match_n in Hm |- *. rewrite Ero, Hra, Erv in *. rewrite Hxo, Hxa, Hxv in Hm.
  rewrite !String.eqb_refl in *. cbn [negb andb] in *.
  destruct (os h =? "linux") eqn:E1; [left; reflexivity|].
  destruct (os h =? "windows") eqn:E2.
  - left. rewrite variant_compatible_refl in Hc. cbn [andb] in Hc. unfold osver_compatible in Hc.
    destruct (osver h =? "") eqn:E0; [|exact Hc].
    apply String.eqb_eq in E0. rewrite E0 in *.
    assert (Hx0 : osver (normalize x) = "") by (apply osver_semver_empty; apply String.eqb_eq in Hm; now rewrite <- Hm).
    rewrite Hx0 in Hb. destruct (osver (normalize r) =? "") eqn:Er0; [|discriminate Hb].
    apply String.eqb_eq in Er0. rewrite Er0. reflexivity.
  - repeat match goal with H : (_ && _) = true |- _ => apply andb_prop in H as [H ?] end.
    match goal with H : (osver h =? osver (normalize x)) = true |- _ => apply String.eqb_eq in H; rewrite <- H, String.eqb_refl in Hb end.
    destruct (osver (normalize r) =? osver h) eqn:Er0; [|discriminate Hb].
    apply String.eqb_eq in Er0. rewrite Er0, String.eqb_refl. cbn [andb].
    destruct (os h =? "darwin") eqn:E3.
    + unfold feats_eq. destruct (str_slice_eq (osfeat h) (osfeat (normalize r)) && str_slice_eq (feat h) (feat (normalize r))); [left; reflexivity|right; auto].
    + left. repeat match goal with H : (_ && _) = true |- _ => apply andb_prop in H as [H ?] end.
      repeat match goal with H : _ = true |- _ => rewrite H; clear H end. reflexivity.
Qed.

(* ---------- property-level statements ---------- *)
Lemma compatible_norm_host host r : compatible (normalize host) r = compatible host r.
Proof. unfold compatible. now rewrite normalize_idem. Qed.

Lemma result_runnable host dl j : search host dl = Some j ->
  exists r, entry_at dl j = Some r /\ compatible host r = true.
Proof.
  intro Hs. pose proof (search_spec host dl) as H. rewrite Hs in H.
  destruct H as (r & Hr & Hc & _). exists r. split; [exact Hr|]. now rewrite <- compatible_norm_host.
Qed.

Lemma found_if_any host dl x :
  In (Some x) dl -> compatible host x = true -> search host dl <> None.
Proof.
  intros Hin Hc Hs. pose proof (search_spec host dl) as H. rewrite Hs in H.
  specialize (H x Hin). rewrite compatible_norm_host in H. congruence.
Qed.
(* before the repair the same claim needed the host to name an architecture ... *)
Lemma found_if_any_old host dl x : arch (normalize host) <> "" ->
  In (Some x) dl -> compatible host x = true -> search_old host dl <> None.
Proof.
  intros Ha Hin Hc Hs. pose proof (search_old_spec host dl) as H. rewrite Hs in H.
  specialize (H x Hin). rewrite better_zero in H; [discriminate|exact Ha|now rewrite compatible_norm_host].
Qed.
(* ... and failed without one: a host that gives only a variant does not find the entry it can run *)
Lemma found_if_any_old_refuted : exists host dl x,
  In (Some x) dl /\ compatible host x = true /\ search_old host dl = None /\ search host dl = Some 0.
Proof.
  exists (mkPlat "" "" "" [] "5" []), [Some (mkPlat "" "" "" [] "" [])], (mkPlat "" "" "" [] "" []).
  split; [left; reflexivity|]. split; [vm_compute; reflexivity|]. split; vm_compute; reflexivity.
Qed.

Lemma none_better host dl j r : search host dl = Some j -> entry_at dl j = Some r ->
  forall x, In (Some x) dl -> better_n (normalize host) x r = false.
Proof.
  intros Hs Hr. pose proof (search_spec host dl) as H. rewrite Hs in H.
  destruct H as (r' & Hr' & _ & Hall). rewrite Hr in Hr'. injection Hr' as <-. exact Hall.
Qed.

Lemma entry_at_in dl j r : entry_at dl j = Some r -> In (Some r) dl.
Proof.
  unfold entry_at. destruct (nth_error dl j) as [[p|]|] eqn:E; try discriminate.
  intro H. injection H as <-. eapply nth_error_In; eassumption.
Qed.

(* order independence: whatever the listing order, the two answers are tied under the ordering *)
Lemma order_independent host dl dl' j j' r r' :
  (forall e, In e dl <-> In e dl') ->
  search host dl = Some j -> entry_at dl j = Some r ->
  search host dl' = Some j' -> entry_at dl' j' = Some r' ->
  better_n (normalize host) r r' = false /\ better_n (normalize host) r' r = false.
Proof.
  intros Hperm Hs Hr Hs' Hr'. split.
  - eapply none_better; [exact Hs'|exact Hr'|]. apply Hperm. eapply entry_at_in; eassumption.
  - eapply none_better; [exact Hs|exact Hr|]. apply Hperm. eapply entry_at_in; eassumption.
Qed.

Lemma found_order_independent host dl dl' :
  (forall e, In e dl <-> In e dl') ->
  search host dl <> None -> search host dl' <> None.
Proof.
  intros Hperm Hs. destruct (search host dl) as [j|] eqn:E; [|congruence].
  destruct (result_runnable _ _ _ E) as (r & Hr & Hc).
  eapply found_if_any; [|exact Hc]. apply Hperm. eapply entry_at_in; eassumption.
Qed.

Lemma exact_preferred host dl x j r :
  In (Some x) dl -> match_ host x = true ->
  search host dl = Some j -> entry_at dl j = Some r ->
  match_ host r = true \/ ((os (normalize host) =? "darwin") = true /\ feats_eq (normalize host) r = false).
Proof.
  intros Hin Hm Hs Hr. unfold match_ in *.
  destruct (result_runnable _ _ _ Hs) as (r' & Hr' & Hc). rewrite Hr in Hr'. injection Hr' as <-.
  eapply exact_beats; [apply normalize_idem|exact Hm|now rewrite compatible_norm_host|].
  eapply none_better; eassumption.
Qed.

(* Windows and macOS hosts run Linux images in a VM: whether such a host can run a linux entry is what a Linux host with
   the same architecture and variant could run - neither side's OS version plays a part *)
Lemma vm_hosts_run_linux_as_linux h t :
  (os h = "windows" \/ os h = "darwin") -> os (normalize t) = "linux" ->
  compatible_n h t = compatible_n (set_os h "linux") t.
Proof.
  intros Hh Ht. unfold compatible_n. cbn [os arch variant set_os]. rewrite Ht.
  destruct Hh as [-> | ->]; cbn; reflexivity.
Qed.
