(* Proofs/C08.v — the mark phase computes exactly the reachable set; the lock table keeps a sweep from running under a copy *)
From Coq Require Import List Arith Bool Lia.
From Verif Require Import Model.C08_GC.
Import ListNotations.

Lemma memn_In x l : memn x l = true <-> In x l.
Proof. unfold memn. rewrite existsb_exists. split; [intros (y & Hy & E); apply Nat.eqb_eq in E; now subst|intro H; exists x; split; [exact H|apply Nat.eqb_refl]]. Qed.

Definition blobs_of (cfg : option nat) (layers : list nat) : list nat := (match cfg with Some c => [c] | None => [] end) ++ layers.

(* the specification of reachability: manifests are followed from the index, at any depth; an image manifest names blobs *)
Inductive ReachM (s : store) (idx : list nat) : nat -> nat -> Prop :=
| RM_root d : In d idx -> ReachM s idx 1 d
| RM_nest n p ch c : ReachM s idx n p -> In p (files s) -> content s p = NIndex ch -> In c ch -> ReachM s idx (S n) c.
Inductive ReachB (s : store) (idx : list nat) : nat -> nat -> Prop :=
| RB n p cfg layers b : ReachM s idx n p -> In p (files s) -> content s p = NImage cfg layers -> In b (blobs_of cfg layers) -> ReachB s idx (S n) b.
Definition Reach s idx k d := ReachM s idx k d \/ ReachB s idx k d.

(* the same relations from an arbitrary node, used for the induction over proc *)
Inductive FromM (s : store) : node -> nat -> nat -> Prop :=
| FM_child ch c : In c ch -> FromM s (NIndex ch) 1 c
| FM_step ch c k d : In c ch -> In c (files s) -> FromM s (content s c) k d -> FromM s (NIndex ch) (S k) d.
Inductive FromB (s : store) : node -> nat -> nat -> Prop :=
| FB_here cfg layers b : In b (blobs_of cfg layers) -> FromB s (NImage cfg layers) 1 b
| FB_step ch c k d : In c ch -> In c (files s) -> FromB s (content s c) k d -> FromB s (NIndex ch) (S k) d.

Lemma proc_sound : forall fuel s n d, In d (proc fuel s n) -> exists k, k <= fuel /\ (FromM s n k d \/ FromB s n k d).
Proof.
  induction fuel as [|f IH]; intros s n d H; [destruct H|]. cbn [proc] in H. destruct n as [ch|cfg layers|]; [| |destruct H].
  - apply in_flat_map in H as (c & Hc & [<-|H]); [exists 1; split; [lia|left; now constructor]|].
    destruct (memn c (files s)) eqn:Em; [|destruct H]. apply memn_In in Em.
    destruct (content s c) as [ch'|cfg' l'|] eqn:Ec; [| |destruct H].
    all: apply IH in H as (k & Hk & [HF|HF]); exists (S k); (split; [lia|]);
         [left; eapply FM_step; eauto; now rewrite Ec|right; eapply FB_step; eauto; now rewrite Ec].
  - exists 1; split; [lia|]. right. now constructor.
Qed.

Lemma proc_completeM : forall fuel s n k d, FromM s n k d -> k <= fuel -> In d (proc fuel s n).
Proof.
  induction fuel as [|f IH]; intros s n k d HF Hk; [inversion HF; subst; lia|].
  inversion HF; subst; cbn [proc].
  - apply in_flat_map. exists d. split; [assumption|now left].
  - apply in_flat_map. exists c. split; [assumption|right].
    assert (Em : memn c (files s) = true) by now apply memn_In. rewrite Em.
    destruct (content s c) eqn:Ec; [| |match goal with H : FromM _ NBlob _ _ |- _ => inversion H end]; eapply IH; eauto; lia.
Qed.
Lemma proc_completeB : forall fuel s n k d, FromB s n k d -> k <= fuel -> In d (proc fuel s n).
Proof.
  induction fuel as [|f IH]; intros s n k d HF Hk; [inversion HF; subst; lia|].
  inversion HF; subst; cbn [proc].
  - assumption.
  - apply in_flat_map. exists c. split; [assumption|right].
    assert (Em : memn c (files s) = true) by now apply memn_In. rewrite Em.
    destruct (content s c) eqn:Ec; [| |match goal with H : FromB _ NBlob _ _ |- _ => inversion H end]; eapply IH; eauto; lia.
Qed.

(* From the root index, From and Reach coincide *)
Lemma extM s : forall N k p, FromM s N k p -> forall ch c, In p (files s) -> content s p = NIndex ch -> In c ch -> FromM s N (S k) c.
Proof.
  induction 1 as [ch0 p Hp|ch0 c0 k d Hc Hf HF IH]; intros ch c Hin Hcont Hc'.
  - eapply FM_step; eauto. rewrite Hcont. now constructor.
  - eapply FM_step; eauto.
Qed.
Lemma extB s : forall N k p, FromM s N k p -> forall cfg l b, In p (files s) -> content s p = NImage cfg l -> In b (blobs_of cfg l) -> FromB s N (S k) b.
Proof.
  induction 1 as [ch0 p Hp|ch0 c0 k d Hc Hf HF IH]; intros cfg l b Hin Hcont Hb.
  - eapply FB_step; eauto. rewrite Hcont. now constructor.
  - eapply FB_step; eauto.
Qed.
Lemma reachM_from s idx k d : ReachM s idx k d -> FromM s (NIndex idx) k d.
Proof. induction 1 as [d Hd|n p ch c HR IH Hp Hc Hin]; [now constructor|eapply extM; eauto]. Qed.
Lemma reachB_from s idx k d : ReachB s idx k d -> FromB s (NIndex idx) k d.
Proof. intros [n p cfg l b HR Hp Hc Hb]. eapply extB; eauto. now apply reachM_from. Qed.

Lemma fromM_reach s idx : forall N k d, FromM s N k d -> forall m p, ReachM s idx m p -> In p (files s) -> content s p = N -> ReachM s idx (m + k) d.
Proof.
  induction 1 as [ch c Hc|ch c k d Hc Hf HF IH]; intros m p HR Hp Hcont.
  - replace (m + 1) with (S m) by lia. eapply RM_nest; eauto.
  - replace (m + S k) with (S m + k) by lia. apply (IH (S m) c); [eapply RM_nest; eauto|exact Hf|reflexivity].
Qed.
Lemma fromB_reach s idx : forall N k d, FromB s N k d -> forall m p, ReachM s idx m p -> In p (files s) -> content s p = N -> ReachB s idx (m + k) d.
Proof.
  induction 1 as [cfg l b Hb|ch c k d Hc Hf HF IH]; intros m p HR Hp Hcont.
  - replace (m + 1) with (S m) by lia. eapply RB; eauto.
  - replace (m + S k) with (S m + k) by lia. apply (IH (S m) c); [eapply RM_nest; eauto|exact Hf|reflexivity].
Qed.
Lemma from_root_reach s idx k d : FromM s (NIndex idx) k d \/ FromB s (NIndex idx) k d -> Reach s idx k d.
Proof.
  intros [H|H]; inversion H; subst.
  - left. now constructor.
  - left. change (S k0) with (1 + k0). eapply fromM_reach; eauto. now constructor.
  - right. change (S k0) with (1 + k0). eapply fromB_reach; eauto. now constructor.
Qed.

Lemma mark_sound fuel s idx d : In d (mark fuel s idx) -> exists k, k <= fuel /\ Reach s idx k d.
Proof. unfold mark. intro H. apply proc_sound in H as (k & Hk & HF). exists k. split; [exact Hk|now apply from_root_reach]. Qed.
Lemma mark_complete fuel s idx k d : Reach s idx k d -> k <= fuel -> In d (mark fuel s idx).
Proof. unfold mark. intros [H|H] Hk; [eapply proc_completeM|eapply proc_completeB]; eauto using reachM_from, reachB_from. Qed.

Lemma sweep_spec fuel s idx d : In d (sweep fuel s idx) <-> In d (files s) /\ In d (mark fuel s idx).
Proof. unfold sweep. rewrite filter_In, memn_In. tauto. Qed.

(* ---------- the lock table ---------- *)
Definition J (act seen : list nat) (s : lst) : Prop :=
  active s = act /\ locks s = length act /\ NoDup act /\ incl act seen /\ Forall (fun a => a = []) (swept_under s).

Lemma filter_remove_len i (l : list nat) : NoDup l -> In i l -> length (filter (fun x => negb (Nat.eqb x i)) l) = Nat.pred (length l).
Proof.
  induction l as [|x l IH]; intros Hn Hi; [destruct Hi|]. inversion Hn as [|? ? Hx Hn']; subst. cbn.
  destruct (Nat.eqb_spec x i) as [->|Hne]; cbn.
  - clear IH Hi Hn Hn'. induction l as [|y l IHl]; [reflexivity|]. cbn. destruct (Nat.eqb_spec y i) as [->|Hy]; cbn; [exfalso; apply Hx; now left|].
    f_equal. apply IHl. intro; apply Hx; now right.
  - destruct Hi as [E|Hi]; [congruence|]. rewrite IH by assumption. destruct l; [destruct Hi|reflexivity].
Qed.
Lemma filter_nodup (f : nat -> bool) l : NoDup l -> NoDup (filter f l).
Proof. induction 1 as [|x l Hx Hn IH]; cbn; [constructor|]. destruct (f x); [constructor; [rewrite filter_In; tauto|exact IH]|exact IH]. Qed.

Lemma lstep_J gc : forall t act seen s, J act seen s -> wf act seen t = true ->
  Forall (fun a => a = []) (swept_under (fold_left (lstep gc) t s)).
Proof.
  induction t as [|e t IH]; intros act seen s (Ha & Hl & Hn & Hi & Hs) Hw; [exact Hs|]. cbn [fold_left].
  destruct e as [i|i|i| |]; cbn [wf] in Hw.
  - apply andb_true_iff in Hw as [Hf Hw]. eapply IH; [|exact Hw]. unfold J; cbn. subst act.
    assert (Hfresh : ~ In i (active s)) by (intro Hin; apply Hi in Hin; apply memn_In in Hin; rewrite Hin in Hf; discriminate).
    split; [reflexivity|]. split; [cbn; now rewrite Hl|]. split; [now constructor|]. split; [|exact Hs].
    intros x [<-|Hx]; [now left|right; now apply Hi].
  - apply andb_true_iff in Hw as [_ Hw]. eapply IH; [|exact Hw]. unfold J; cbn; auto.
  - apply andb_true_iff in Hw as [Hm Hw]. apply memn_In in Hm. eapply IH; [|exact Hw]. unfold J; cbn. subst act.
    split; [reflexivity|]. split; [rewrite Hl; symmetry; now apply filter_remove_len|]. split; [now apply filter_nodup|]. split; [|exact Hs].
    intros x Hx. apply filter_In in Hx as [Hx _]. now apply Hi.
  - eapply IH; [|exact Hw]. cbn [lstep].
    destruct (gc && modified s && Nat.eqb (locks s) 0) eqn:Eg; [|unfold J; auto].
    apply andb_true_iff in Eg as [_ E0]. apply Nat.eqb_eq in E0. rewrite Hl in E0. apply length_zero_iff_nil in E0.
    unfold J; cbn. subst act. rewrite E0 in *. repeat split; auto.
  - eapply IH; [|exact Hw]. unfold J; cbn; auto.
Qed.

Lemma no_sweep_under_copy t : wf [] [] t = true -> Forall (fun a => a = []) (swept_under (lrun true t)).
Proof. intro Hw. unfold lrun. eapply lstep_J; [|exact Hw]. unfold J; cbn. repeat split; auto; [constructor|intros x []]. Qed.

Lemma gc_off_never_sweeps : forall t s, swept_under (fold_left (lstep false) t s) = swept_under s.
Proof. induction t as [|e t IH]; intro s; [reflexivity|]. cbn [fold_left]. rewrite IH. destruct e; reflexivity. Qed.

(* an idle modified layout is collected at the next Close *)
Lemma idle_close_sweeps s : locks s = 0 -> modified s = true -> swept_under (lstep true s Close) = active s :: swept_under s.
Proof. intros Hl Hm. cbn. rewrite Hl, Hm. reflexivity. Qed.
