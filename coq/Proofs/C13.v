(* Proofs/C13.v — the rewriting keeps layers, diff_ids and history aligned for every marking *)
From Coq Require Import List Arith Bool Lia.
From Verif Require Import Model.C13_Mod.
Import ListNotations.

Lemma span_empty_spec hs : let (a, b) := span_empty hs in hs = a ++ b /\ nonempty a = 0 /\ (match b with h :: _ => h_empty h = false | [] => True end).
Proof.
  induction hs as [|h r IH]; cbn; [auto|]. destruct (h_empty h) eqn:E.
  - destruct (span_empty r) as [a b]. destruct IH as (H1 & H2 & H3). cbn. rewrite H1 at 1. split; [reflexivity|]. split; [|exact H3].
    unfold nonempty in *. cbn. now rewrite E.
  - cbn. split; [reflexivity|]. split; [reflexivity|exact E].
Qed.
Lemma nonempty_app a b : nonempty (a ++ b) = nonempty a + nonempty b.
Proof. unfold nonempty. now rewrite filter_app, app_length. Qed.

(* aligned input: one (layer, diff_id) pair and one non-empty history entry per original layer *)
Theorem rew_aligned : forall es lds hs, length lds = originals es -> nonempty hs = originals es ->
  exists o h, rew es lds hs = Some (o, h) /\ length o = kept es /\ nonempty h = kept es.
Proof.
  induction es as [|e es IH]; intros lds hs Hl Hh; cbn [rew].
  - exists [], hs. cbn in *. auto.
  - pose proof (span_empty_spec hs) as Hs. destruct (span_empty hs) as [pre rest]. destruct Hs as (Heq & Hpre & Hrest).
    assert (Hne : nonempty hs = nonempty rest) by (rewrite Heq, nonempty_app, Hpre; reflexivity).
    unfold originals, kept in *. cbn [filter] in *.
    destruct (e_mark e) eqn:Em; rewrite ?Em in *; cbn [length] in *.
    + (* unchanged *)
      destruct lds as [|[l d] lds']; [discriminate|]. destruct rest as [|hcur rest']; [change (nonempty []) with 0 in Hne; lia|].
      assert (Hn : nonempty (hcur :: rest') = S (nonempty rest')) by (unfold nonempty; cbn; rewrite Hrest; reflexivity).
      destruct (IH lds' rest') as (o & h & Hr & Ho & Hhh); [cbn in Hl; lia|lia|]. rewrite Hr.
      exists ((l, d) :: o), (pre ++ hcur :: h). split; [reflexivity|]. split; [cbn; lia|].
      rewrite nonempty_app, Hpre. unfold nonempty in *. cbn. rewrite Hrest. cbn. lia.
    + (* added *)
      destruct (IH lds rest) as (o & h & Hr & Ho & Hhh); [lia|lia|]. rewrite Hr.
      exists ((e_new e, e_uc e) :: o), (pre ++ NEW_HISTORY :: h). split; [reflexivity|]. split; [cbn; lia|].
      rewrite nonempty_app, Hpre. unfold nonempty in *. cbn. lia.
    + (* replaced *)
      destruct lds as [|[l d] lds']; [discriminate|]. destruct rest as [|hcur rest']; [change (nonempty []) with 0 in Hne; lia|].
      assert (Hn : nonempty (hcur :: rest') = S (nonempty rest')) by (unfold nonempty; cbn; rewrite Hrest; reflexivity).
      destruct (IH lds' rest') as (o & h & Hr & Ho & Hhh); [cbn in Hl; lia|lia|]. rewrite Hr.
      eexists. exists (pre ++ hcur :: h). split; [reflexivity|]. split; [cbn; lia|].
      rewrite nonempty_app, Hpre. unfold nonempty in *. cbn. rewrite Hrest. cbn. lia.
    + (* deleted *)
      destruct lds as [|[l d] lds']; [discriminate|]. destruct rest as [|hcur rest']; [change (nonempty []) with 0 in Hne; lia|].
      assert (Hn : nonempty (hcur :: rest') = S (nonempty rest')) by (unfold nonempty; cbn; rewrite Hrest; reflexivity).
      destruct (IH lds' rest') as (o & h & Hr & Ho & Hhh); [cbn in Hl; lia|lia|]. rewrite Hr.
      exists o, (pre ++ h). split; [reflexivity|]. split; [lia|].
      rewrite nonempty_app, Hpre. lia.
Qed.

(* what each kept layer is paired with: an unchanged layer keeps its own diff_id, a replaced one gets the recomputed one *)
Fixpoint spec_pairs (es : list entry) (lds : list (nat * nat)) : list (nat * nat) :=
  match es with
  | [] => []
  | e :: es' =>
      match e_mark e with
      | MAdded => (e_new e, e_uc e) :: spec_pairs es' lds
      | m => match lds with
             | (l, d) :: lds' =>
                 match m with
                 | MDeleted => spec_pairs es' lds'
                 | MReplaced => (if Nat.eqb (e_new e) 0 then l else e_new e, if Nat.eqb (e_uc e) 0 then d else e_uc e) :: spec_pairs es' lds'
                 | _ => (l, d) :: spec_pairs es' lds'
                 end
             | [] => []
             end
      end
  end.
Theorem rew_pairs : forall es lds hs o h, rew es lds hs = Some (o, h) -> o = spec_pairs es lds.
Proof.
  induction es as [|e es IH]; intros lds hs o h; cbn [rew spec_pairs]; [intro H; inversion H; reflexivity|].
  destruct (span_empty hs) as [pre rest]. destruct (e_mark e).
  - destruct lds as [|[l d] lds']; [discriminate|]. destruct rest as [|hc rest']; [discriminate|].
    destruct (rew es lds' rest') as [[o' h']|] eqn:Er; [|discriminate]. intro H; inversion H; subst. f_equal. eapply IH; eauto.
  - destruct (rew es lds rest) as [[o' h']|] eqn:Er; [|discriminate]. intro H; inversion H; subst. f_equal. eapply IH; eauto.
  - destruct lds as [|[l d] lds']; [discriminate|]. destruct rest as [|hc rest']; [discriminate|].
    destruct (rew es lds' rest') as [[o' h']|] eqn:Er; [|discriminate]. intro H; inversion H; subst. f_equal. eapply IH; eauto.
  - destruct lds as [|[l d] lds']; [discriminate|]. destruct rest as [|hc rest']; [discriminate|].
    destruct (rew es lds' rest') as [[o' h']|] eqn:Er; [|discriminate]. intro H; inversion H; subst. eapply IH; eauto.
Qed.
