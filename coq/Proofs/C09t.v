(* Proofs/C09t.v — the Docker manifest.json of an export names the image "registry/repository:tag": ImageExport takes the
   export reference as a registry reference and sets its tag with SetTag (which drops the digest), default "latest", then
   prints it (CommonName).  Over the reference model of C15: for every canonical registry reference - whatever tag and
   digest it carries - that text contains no '@' and ends in ":" ++ the tag. *)
From Coq Require Import List Ascii String Bool Arith Lia.
From Verif Require Import Base.StrX Model.C15_Ref Proofs.C15 Proofs.C15rt.
Import ListNotations.

Definition repo_tag (r : ref) : str :=
  print (set_tag r (match tag r with [] => s_latest | t => t end)).

(* the same with the tag stored by a plain field assignment: the digest stays *)
Definition repo_tag_keep (r : ref) : str :=
  print (mkRef (scheme r) (registry r) (repository r) (match tag r with [] => s_latest | t => t end) (digest r) (path r)).

Lemma joinc_alln q sep l : q sep = true -> forallb (alln q) l = true -> alln q (joinc sep l) = true.
Proof.
  intros Hs. induction l as [|x l IH]; cbn; [reflexivity|].
  intro H. apply andb_prop in H as [Hx Hl]. destruct l as [|y l']; [exact Hx|].
  rewrite alln_app. rewrite Hx. cbn [alln andb]. rewrite Hs. cbn [andb]. apply IH. exact Hl.
Qed.

Lemma latest_ok : tag_ok s_latest = true. Proof. reflexivity. Qed.

Lemma print_reg r : scheme r = s_reg -> repository r <> [] ->
  print r = (match registry r with [] => [] | g => g ++ ["/"%char] end) ++ repository r ++
            (match tag r with [] => [] | t => ":"%char :: t end) ++ (match digest r with [] => [] | d => "@"%char :: d end).
Proof. intros Hs Hne. unfold print. rewrite Hs. replace (str_eqb s_reg s_reg) with true by reflexivity. destruct (repository r); [congruence|reflexivity]. Qed.

Theorem repo_tag_no_digest r rc : canon_reg r rc -> alln (ne "@") (repo_tag r) = true.
Proof.
  intros (Hs & _ & Hreg & _ & _ & Hrc & Hparts & Hrepo & _ & Htag & _ & _).
  assert (Ht : tag_ok (match tag r with [] => s_latest | t => t end) = true).
  { destruct (tag r) eqn:E; [exact latest_ok|]. destruct Htag as [H|H]; [discriminate|exact H]. }
  destruct (tag_plain _ Ht) as [Htp Htne].
  assert (Hr : alln (ne "@") (repository r) = true).
  { rewrite Hrepo. apply joinc_alln; [reflexivity|]. rewrite forallb_forall in Hparts |- *. intros x Hx.
    eapply alln_impl; [exact plain_noat|]. apply repo_part_plain. now apply Hparts. }
  assert (Hrne : repository r <> []).
  { rewrite Hrepo. destruct rc as [|x rc']; [congruence|]. cbn in Hparts. apply andb_prop in Hparts as [Hx _].
    destruct (repo_part_head _ Hx) as (c & s' & -> & _). destruct rc'; cbn; discriminate. }
  assert (Hg : alln (ne "@") (registry r) = true).
  { eapply alln_impl; [exact nsa_noat|]. eapply alln_impl; [exact regch_nsa|]. now apply registry_chars. }
  unfold repo_tag. rewrite print_reg; [|exact Hs|exact Hrne]. unfold set_tag. cbn [scheme registry repository tag digest path].
  set (t := match tag r with [] => s_latest | t => t end) in *.
  rewrite !alln_app, Hr. rewrite app_nil_r || idtac.
  assert (Hgp : alln (ne "@") (match registry r with [] => [] | g => g ++ ["/"%char] end) = true).
  { destruct (registry r) as [|g0 g] eqn:Eg; [reflexivity|]. rewrite alln_app, Hg. reflexivity. }
  apply andb_true_intro. split; [destruct (registry r) as [|g0 g] eqn:Eg; [reflexivity|]; rewrite alln_app, Hg; reflexivity|].
  cbn [andb]. rewrite andb_true_r.
  destruct (tag r) as [|t0 t'] eqn:Et.
  - cbn. reflexivity.
  - change (alln (ne "@") (":"%char :: t0 :: t') = true). cbn [alln]. replace (ne "@" ":") with true by reflexivity. cbn [andb].
    change (alln (ne "@") (t0 :: t') = true). eapply alln_impl; [exact plain_noat|]. exact Htp.
Qed.

(* keeping the digest puts an '@' into the entry as soon as the exported reference carries one *)
Theorem repo_tag_keep_refuted : exists r rc, canon_reg r rc /\ alln (ne "@") (repo_tag_keep r) = false.
Proof.
  exists (mkRef s_reg (of_string "example.com") (of_string "app") (of_string "v1")
                (of_string "sha256:0123456789abcdef0123456789abcdef0123456789abcdef0123456789abcdef") []), [of_string "app"].
  split; [|vm_compute; reflexivity].
  unfold canon_reg; cbn [scheme registry repository tag digest path].
  repeat split; try reflexivity; try discriminate; try (right; vm_compute; reflexivity); try (left; discriminate).
Qed.
