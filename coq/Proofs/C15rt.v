(* Proofs/C15rt.v — the canonical form of an accepted reference re-parses to the same components *)
From Coq Require Import List String Ascii Bool NArith Arith Lia.
From Verif Require Import Base.StrX Model.C15_Ref Proofs.C15.
Import ListNotations.
Close Scope string_scope.
Open Scope list_scope.

(* ---------- character classes: pointwise facts by exhaustion of the 256 bytes ---------- *)
Ltac ascii_cases :=
  let c := fresh "c" in intro c; destruct c as [[|] [|] [|] [|] [|] [|] [|] [|]]; vm_compute; intros; try reflexivity; try discriminate; auto.

Definition ne (x : ascii) (c : ascii) : bool := negb (Ascii.eqb c x).
(* the characters a registry may contain *)
Definition c_regch (c : ascii) : bool := c_hostmid c || c_is "." c || c_is ":" c.
(* characters that can not split a name: none of / @ *)
Definition c_nsa (c : ascii) : bool := ne "/" c && ne "@" c.
(* none of / @ : newline *)
Definition c_plain (c : ascii) : bool := ne "/" c && ne "@" c && ne ":" c && ne "010" c.
(* none of @ : newline (a path may contain '/') *)
Definition c_pplain (c : ascii) : bool := ne "@" c && ne ":" c && ne "010" c.
Definition c_repoch (c : ascii) : bool := c_lownum c || c_is "." c || c_is "_" c || c_is "-" c.
Definition c_digch (c : ascii) : bool := c_alnum c || c_algsep c || c_is ":" c.

Lemma hostmid_regch : forall c, c_hostmid c = true -> c_regch c = true. Proof. ascii_cases. Qed.
Lemma alnum_hostmid : forall c, c_alnum c = true -> c_hostmid c = true. Proof. ascii_cases. Qed.
Lemma upper_hostmid : forall c, is_upper c = true -> c_hostmid c = true. Proof. ascii_cases. Qed.
Lemma digit_regch : forall c, is_digit c = true -> c_regch c = true. Proof. ascii_cases. Qed.
Lemma regch_nsa : forall c, c_regch c = true -> c_nsa c = true. Proof. ascii_cases. Qed.
Lemma repoch_plain : forall c, c_repoch c = true -> c_plain c = true. Proof. ascii_cases. Qed.
Lemma lownum_repoch : forall c, c_lownum c = true -> c_repoch c = true. Proof. ascii_cases. Qed.
Lemma tagrest_plain : forall c, c_tagrest c = true -> c_plain c = true. Proof. ascii_cases. Qed.
Lemma path_pplain : forall c, c_path c = true -> c_pplain c = true. Proof. ascii_cases. Qed.
Lemma alnum_digch : forall c, c_alnum c = true -> c_digch c = true. Proof. ascii_cases. Qed.
Lemma alpha_digch : forall c, c_alpha c = true -> c_digch c = true. Proof. ascii_cases. Qed.
Lemma algsep_digch : forall c, c_algsep c = true -> c_digch c = true. Proof. ascii_cases. Qed.
Lemma xdigit_digch : forall c, c_xdigit c = true -> c_digch c = true. Proof. ascii_cases. Qed.
Lemma digch_nonl : forall c, c_digch c = true -> c_nl c = false. Proof. ascii_cases. Qed.
Lemma plain_nonl : forall c, c_plain c = true -> c_nl c = false. Proof. ascii_cases. Qed.
Lemma pplain_nonl : forall c, c_pplain c = true -> c_nl c = false. Proof. ascii_cases. Qed.
Lemma plain_pplain : forall c, c_plain c = true -> c_pplain c = true. Proof. ascii_cases. Qed.
Lemma plain_nsa : forall c, c_plain c = true -> c_nsa c = true. Proof. ascii_cases. Qed.
Lemma plain_nocolon : forall c, c_plain c = true -> ne ":" c = true. Proof. ascii_cases. Qed.
Lemma plain_noslash : forall c, c_plain c = true -> ne "/" c = true. Proof. ascii_cases. Qed.
Lemma plain_noat : forall c, c_plain c = true -> ne "@" c = true. Proof. ascii_cases. Qed.
Lemma pplain_nocolon : forall c, c_pplain c = true -> ne ":" c = true. Proof. ascii_cases. Qed.
Lemma pplain_noat : forall c, c_pplain c = true -> ne "@" c = true. Proof. ascii_cases. Qed.
Lemma nsa_noslash : forall c, c_nsa c = true -> ne "/" c = true. Proof. ascii_cases. Qed.
Lemma nsa_noat : forall c, c_nsa c = true -> ne "@" c = true. Proof. ascii_cases. Qed.
Lemma lownum_noslash : forall c, c_lownum c = true -> ne "/" c = true. Proof. ascii_cases. Qed.
Lemma lower_false_slash : is_lower "/" = false. Proof. reflexivity. Qed.

Lemma alln_impl (p q : ascii -> bool) s : (forall c, p c = true -> q c = true) -> alln p s = true -> alln q s = true.
Proof. intro H. induction s as [|c s IH]; cbn; [reflexivity|]. intro E. apply andb_prop in E as [E1 E2]. now rewrite (H _ E1), IH. Qed.
Lemma alln_app p a b : alln p (a ++ b) = alln p a && alln p b.
Proof. induction a as [|c a IH]; cbn; [reflexivity|]. now rewrite IH, andb_assoc. Qed.

(* ---------- cut / splitc / joinc ---------- *)
Lemma cut_spec c s a b : cut c s = Some (a, b) -> s = a ++ c :: b.
Proof.
  revert a b; induction s as [|x s IH]; intros a b; cbn; [discriminate|].
  destruct (Ascii.eqb_spec x c) as [->|Hn].
  - intro H; injection H as <- <-. reflexivity.
  - destruct (cut c s) as [[a' b']|]; [|discriminate]. intro H; injection H as <- <-. cbn. f_equal. now apply IH.
Qed.
Lemma cut_app c a b : alln (ne c) a = true -> cut c (a ++ c :: b) = Some (a, b).
Proof.
  induction a as [|x a IH]; cbn.
  - now rewrite Ascii.eqb_refl.
  - intro H. apply andb_prop in H as [H1 H2]. unfold ne in H1. apply negb_true_iff in H1. rewrite H1. now rewrite IH.
Qed.
Lemma cut_none c a : alln (ne c) a = true -> cut c a = None.
Proof.
  induction a as [|x a IH]; cbn; [reflexivity|].
  intro H. apply andb_prop in H as [H1 H2]. unfold ne in H1. apply negb_true_iff in H1. rewrite H1. now rewrite IH.
Qed.

Lemma splitc_nosep sep s : alln (ne sep) s = true -> splitc sep s = [s].
Proof.
  induction s as [|x s IH]; cbn; [reflexivity|].
  intro H. apply andb_prop in H as [H1 H2]. unfold ne in H1. apply negb_true_iff in H1. rewrite H1. now rewrite IH.
Qed.
Lemma splitc_cons sep a b : alln (ne sep) a = true -> splitc sep (a ++ sep :: b) = a :: splitc sep b.
Proof.
  induction a as [|x a IH]; cbn.
  - now rewrite Ascii.eqb_refl.
  - intro H. apply andb_prop in H as [H1 H2]. unfold ne in H1. apply negb_true_iff in H1. rewrite H1. now rewrite IH.
Qed.
Lemma splitc_joinc sep l : l <> [] -> forallb (alln (ne sep)) l = true -> splitc sep (joinc sep l) = l.
Proof.
  induction l as [|x l IH]; [congruence|]. intros _ H. cbn [forallb] in H. apply andb_prop in H as [Hx Hl].
  destruct l as [|y l].
  - cbn. now apply splitc_nosep.
  - change (joinc sep (x :: y :: l)) with (x ++ sep :: joinc sep (y :: l)).
    rewrite splitc_cons by exact Hx. f_equal. apply IH; [discriminate|exact Hl].
Qed.
(* all characters of s satisfy q  iff  all characters of every piece do, when the separator does *)
Lemma splitc_alln q sep s : q sep = true -> alln q s = forallb (alln q) (splitc sep s).
Proof.
  intro Hq. induction s as [|x s IH]; cbn; [reflexivity|].
  destruct (Ascii.eqb_spec x sep) as [->|Hn].
  - cbn. now rewrite Hq, IH.
  - rewrite IH. destruct (splitc sep s) as [|h t]; cbn; [now rewrite !andb_true_r|]. now rewrite andb_assoc.
Qed.
Lemma forallb_rev {A} (p : A -> bool) l : forallb p (rev l) = forallb p l.
Proof. induction l as [|x l IH]; cbn; [reflexivity|]. rewrite forallb_app, IH. cbn. rewrite andb_true_r. apply andb_comm. Qed.

(* ---------- what the recognisers allow ---------- *)
Lemma host_part_chars s : host_part s = true -> alln c_hostmid s = true.
Proof. destruct s as [|c s]; [discriminate|]. unfold host_part. intro H. apply andb_prop in H as [H _]. now apply andb_prop in H as [_ H]. Qed.

Lemma dotted_chars s x : dotted s = Some x -> alln c_regch s = true.
Proof.
  unfold dotted. intro H.
  rewrite (splitc_alln c_regch "." s) by reflexivity.
  assert (Hp : forall l, forallb host_part l = true -> forallb (alln c_regch) l = true).
  { intros l. apply forallb_impl. intros y Hy. eapply alln_impl; [exact hostmid_regch|]. now apply host_part_chars. }
  destruct (rev (splitc "." s)) as [|[|c0 l0] r] eqn:Er.
  - destruct (splitc "." s) as [|h t] eqn:Es; [discriminate|].
    destruct (forallb host_part (h :: t)) eqn:Ef; [|discriminate]. now apply Hp.
  - assert (Es : splitc "." s = rev r ++ [[]]) by (rewrite <- (rev_involutive (splitc "." s)), Er; reflexivity).
    rewrite Es, forallb_app. cbn. rewrite andb_true_r.
    destruct (rev r) as [|h t] eqn:Err; [discriminate|].
    destruct (forallb host_part (h :: t)) eqn:Ef; [|discriminate]. now apply Hp.
  - destruct (splitc "." s) as [|h t] eqn:Es; [discriminate|].
    destruct (forallb host_part (h :: t)) eqn:Ef; [|discriminate]. now apply Hp.
Qed.

Lemma nonempty_digits_chars p : nonempty_digits p = true -> alln c_regch p = true.
Proof. destruct p as [|c p]; [discriminate|]. unfold nonempty_digits. apply alln_impl. exact digit_regch. Qed.

Lemma upper_a_chars s : upper_a s = true -> alln c_hostmid s = true.
Proof.
  induction s as [|c s IH]; [discriminate|]. cbn [upper_a alln]. intro H. apply orb_prop in H as [H|H].
  - apply andb_prop in H as [Hu H]. rewrite (upper_hostmid _ Hu). cbn. destruct s as [|d s]; [discriminate|].
    apply andb_prop in H as [H _]. exact H.
  - apply andb_prop in H as [Ha H]. rewrite (alnum_hostmid _ Ha). cbn. now apply IH.
Qed.
Lemma upper_b_tail_chars s : upper_b_tail s = true -> alln c_hostmid s = true.
Proof.
  induction s as [|c s IH]; [discriminate|]. cbn [upper_b_tail alln]. intro H. apply orb_prop in H as [H|H].
  - apply andb_prop in H as [Hu H]. rewrite (upper_hostmid _ Hu). cbn. eapply alln_impl; [exact alnum_hostmid|exact H].
  - apply andb_prop in H as [Ha H]. rewrite Ha. cbn. now apply IH.
Qed.

Lemma registry_chars g : registry_ok g = true -> alln c_regch g = true.
Proof.
  unfold registry_ok. intro H. apply orb_prop in H as [H|H]; [apply orb_prop in H as [H|H]; [apply orb_prop in H as [H|H]|]|].
  - unfold host_domain in H. destruct (dotted g) as [x|] eqn:E; [|discriminate]. eapply dotted_chars; exact E.
  - unfold host_port in H. destruct (cut ":" g) as [[h p]|] eqn:E; [|discriminate]. apply cut_spec in E. subst g.
    apply andb_prop in H as [Hp Hd]. rewrite alln_app. cbn [alln]. rewrite (nonempty_digits_chars _ Hp).
    destruct (dotted h) as [x|] eqn:E; [|discriminate]. rewrite (dotted_chars _ _ E). reflexivity.
  - unfold host_upper in H. eapply alln_impl; [exact hostmid_regch|]. apply orb_prop in H as [H|H].
    + now apply upper_a_chars.
    + unfold upper_b in H. destruct g as [|c g]; [discriminate|]. apply andb_prop in H as [Ha H]. cbn.
      rewrite (alnum_hostmid _ Ha). cbn. now apply upper_b_tail_chars.
  - unfold host_localhost in H. apply orb_prop in H as [H|H].
    + apply str_eqb_eq in H. subst. reflexivity.
    + destruct (cut ":" g) as [[h p]|] eqn:E; [|discriminate]. apply cut_spec in E. subst g.
      apply andb_prop in H as [Hh Hp]. apply str_eqb_eq in Hh. subst h. rewrite alln_app. cbn [alln].
      rewrite (nonempty_digits_chars _ Hp). reflexivity.
Qed.

Lemma repo_part_st_chars : forall s st, repo_part_st st s = true -> alln c_repoch s = true.
Proof.
  induction s as [|c s IH]; intros st H; cbn in *; [reflexivity|].
  unfold c_repoch at 1. destruct (c_lownum c) eqn:El; cbn [orb andb]; [eapply IH; eassumption|].
  destruct (c_is "." c); cbn [orb andb]; [apply andb_prop in H as [_ H]; eapply IH; eassumption|].
  destruct (c_is "_" c); cbn [orb andb].
  { destruct (Nat.eqb st 1); [eapply IH; eassumption|]. destruct (Nat.eqb st 2); [eapply IH; eassumption|discriminate]. }
  destruct (c_is "-" c); cbn [orb andb]; [apply andb_prop in H as [_ H]; eapply IH; eassumption|discriminate].
Qed.
Lemma repo_part_plain s : repo_part s = true -> alln c_plain s = true.
Proof. intro H. eapply alln_impl; [exact repoch_plain|]. eapply repo_part_st_chars; exact H. Qed.
Lemma repo_part_head s : repo_part s = true -> exists c s', s = c :: s' /\ c_lownum c = true.
Proof.
  destruct s as [|c s]; [discriminate|]. unfold repo_part. cbn. intro H. exists c, s. split; [reflexivity|].
  destruct (c_lownum c); [reflexivity|]. destruct (c_is "." c); [discriminate|]. destruct (c_is "_" c); [discriminate|].
  destruct (c_is "-" c); discriminate.
Qed.

Lemma tag_plain t : tag_ok t = true -> alln c_plain t = true /\ t <> [].
Proof.
  destruct t as [|c t]; [discriminate|]. unfold tag_ok. intro H. apply andb_prop in H as [H _]. apply andb_prop in H as [H1 H2].
  split; [|discriminate]. cbn. rewrite (alln_impl _ _ _ tagrest_plain H2), andb_true_r.
  revert H1. generalize c. ascii_cases.
Qed.

Lemma path_plain p : path_ok p = true -> alln c_pplain p = true /\ p <> [].
Proof. destruct p as [|c p]; [discriminate|]. unfold path_ok. intro H. split; [|discriminate]. eapply alln_impl; [exact path_pplain|exact H]. Qed.

Lemma algo_chars : forall a st, algo_st st a = true -> alln c_digch a = true.
Proof.
  induction a as [|c a IH]; intros st H; cbn in *; [reflexivity|].
  destruct (Nat.eqb st 0).
  - apply andb_prop in H as [H1 H2]. rewrite (alpha_digch _ H1). eapply IH; eassumption.
  - destruct (c_alnum c) eqn:Ea.
    + rewrite (alnum_digch _ Ea). eapply IH; eassumption.
    + apply andb_prop in H as [H1 H2]. rewrite (algsep_digch _ H1). eapply IH; eassumption.
Qed.
Lemma digest_chars d : digest_ok d = true -> alln c_digch d = true /\ d <> [].
Proof.
  unfold digest_ok. destruct (cut ":" d) as [[a h]|] eqn:E; [|discriminate]. apply cut_spec in E. subst d.
  intro H. apply andb_prop in H as [H _]. apply andb_prop in H as [Ha Hh]. split; [|now destruct a].
  rewrite alln_app. cbn [alln]. rewrite (algo_chars _ _ Ha). cbn. eapply alln_impl; [exact xdigit_digch|exact Hh].
Qed.
Lemma alln_nonl q s : (forall c, q c = true -> c_nl c = false) -> alln q s = true -> existsb c_nl s = false.
Proof. intro Hq. induction s as [|c s IH]; cbn; [reflexivity|]. intro H. apply andb_prop in H as [H1 H2]. now rewrite (Hq _ H1), IH. Qed.

(* ---------- parse_reg in named stages (the same term, by conversion) ---------- *)
Definition pick_reg (comps : list str) : str * list str :=
  match comps with
  | c0 :: (_ :: _) as rest => if registry_ok c0 then (c0, rest) else ([], comps)
  | _ => ([], comps)
  end.
Definition last_tag (rcomps : list str) : option (str * str) :=
  match cut ":" (List.last rcomps []) with
  | Some (n, tg) => if tag_ok tg then Some (n, tg) else None
  | None => Some (List.last rcomps [], [])
  end.
Definition shift_local (reg : str) (rc : list str) : str * list str :=
  match reg, rc with
  | [], c0 :: rest => if str_eqb c0 s_localhost then (c0, rest) else (reg, rc)
  | _, _ => (reg, rc)
  end.
Definition norm2 (reg : str) (rc : list str) (tg dgv : str) : option ref :=
  let reg := if match reg with [] => true | _ => false end || str_eqb reg s_docker_dns || str_eqb reg s_docker_legacy
             then s_docker else reg in
  let repo := joinc "/" rc in
  let repo := if str_eqb reg s_docker && negb (existsb (c_is "/") repo) then s_library ++ "/"%char :: repo else repo in
  let tg := match tg, dgv with [], [] => s_latest | _, _ => tg end in
  match rc with
  | [] => None
  | _ => if match joinc "/" rc with [] => true | _ => false end then None
         else Some (mkRef s_reg reg repo tg dgv [])
  end.
Definition norm (reg : str) (rc : list str) (tg dgv : str) : option ref :=
  let '(reg, rc) := shift_local reg rc in norm2 reg rc tg dgv.
Definition reg_body (lft : str) (dg : option str) : option ref :=
  if match dg with Some d => negb (digest_ok d) | None => false end then None else
  let dgv := match dg with Some d => d | None => [] end in
  let '(reg, rcomps) := pick_reg (splitc "/" lft) in
  match last_tag rcomps with
  | None => None
  | Some (lname, tg) =>
      let rc := removelast rcomps ++ [lname] in
      if negb (forallb repo_part rc) then None else norm reg rc tg dgv
  end.
Lemma parse_reg_eq tail :
  parse_reg tail = let '(lft, dg) := match cut "@" tail with Some (l, d) => (l, Some d) | None => (tail, None) end in reg_body lft dg.
Proof. reflexivity. Qed.

(* ---------- the canonical form of a registry reference ---------- *)
Definition canon_reg (r : ref) (rc : list str) : Prop :=
  scheme r = s_reg /\ path r = [] /\
  registry_ok (registry r) = true /\ str_eqb (registry r) s_docker_dns = false /\ str_eqb (registry r) s_docker_legacy = false /\
  rc <> [] /\ forallb repo_part rc = true /\ repository r = joinc "/" rc /\
  (str_eqb (registry r) s_docker && negb (existsb (c_is "/") (repository r))) = false /\
  (tag r = [] \/ tag_ok (tag r) = true) /\ (digest r = [] \/ digest_ok (digest r) = true) /\
  (tag r <> [] \/ digest r <> []).

Lemma pick_reg_ok comps reg rcomps : pick_reg comps = (reg, rcomps) -> reg = [] \/ registry_ok reg = true.
Proof.
  unfold pick_reg. destruct comps as [|c0 [|c1 rest]]; try (intro H; injection H as <- _; now left).
  destruct (registry_ok c0) eqn:E; intro H; injection H as <- _; [now right|now left].
Qed.
Lemma last_tag_ok rcomps lname tg : last_tag rcomps = Some (lname, tg) -> tg = [] \/ tag_ok tg = true.
Proof.
  unfold last_tag. destruct (cut ":" (last rcomps [])) as [[n t]|].
  - destruct (tag_ok t) eqn:Et; [|discriminate]. intro H; injection H as _ <-. now right.
  - intro H; injection H as _ <-. now left.
Qed.

Lemma existsb_app {A} (p : A -> bool) a b : existsb p (a ++ b) = existsb p a || existsb p b.
Proof. induction a as [|x a IH]; cbn; [reflexivity|]. now rewrite IH, orb_assoc. Qed.

Lemma norm_canon reg rc tg dgv r :
  (reg = [] \/ registry_ok reg = true) -> forallb repo_part rc = true ->
  (tg = [] \/ tag_ok tg = true) -> (dgv = [] \/ digest_ok dgv = true) ->
  norm reg rc tg dgv = Some r -> exists rc', canon_reg r rc'.
Proof.
  intros Hreg Hrc Htg Hdg. unfold norm.
  destruct (shift_local reg rc) as [reg1 rc1] eqn:Eloc. unfold shift_local in Eloc.
  assert (Hreg1 : reg1 = [] \/ registry_ok reg1 = true).
  { destruct reg as [|g0 g]; cbv beta iota in Eloc; [|injection Eloc as <- _; exact Hreg].
    destruct rc as [|c0 rest]; [injection Eloc as <- _; now left|].
    destruct (str_eqb c0 s_localhost) eqn:El; cbv iota in Eloc; injection Eloc as <- _; [|now left].
    apply str_eqb_eq in El. subst c0. now right. }
  assert (Hrc1 : forallb repo_part rc1 = true).
  { destruct reg as [|g0 g]; cbv beta iota in Eloc; [|injection Eloc as _ <-; exact Hrc].
    destruct rc as [|c0 rest]; [injection Eloc as _ <-; reflexivity|].
    destruct (str_eqb c0 s_localhost); cbv iota in Eloc; injection Eloc as _ <-; [|exact Hrc].
    cbn in Hrc. now apply andb_prop in Hrc as [_ ?]. }
  clear Eloc Hreg Hrc. unfold norm2. cbv beta iota zeta.
  set (reg2 := if match reg1 with [] => true | _ => false end || str_eqb reg1 s_docker_dns || str_eqb reg1 s_docker_legacy then s_docker else reg1).
  assert (Hreg2 : registry_ok reg2 = true /\ str_eqb reg2 s_docker_dns = false /\ str_eqb reg2 s_docker_legacy = false).
  { subst reg2. destruct (match reg1 with [] => true | _ => false end || str_eqb reg1 s_docker_dns || str_eqb reg1 s_docker_legacy) eqn:E.
    - repeat split; reflexivity.
    - apply orb_false_elim in E as [E E3]. apply orb_false_elim in E as [E1 E2]. repeat split; auto.
      destruct Hreg1 as [->|H]; [discriminate|exact H]. }
  destruct Hreg2 as (Hok & Hdns & Hleg).
  destruct rc1 as [|x rc']; [discriminate|].
  destruct (joinc "/" (x :: rc')) as [|j0 j'] eqn:Ej; [discriminate|]. rewrite <- Ej.
  destruct (str_eqb reg2 s_docker && negb (existsb (c_is "/") (joinc "/" (x :: rc')))) eqn:Ed; intro H; injection H as <-.
  - exists (s_library :: x :: rc'). unfold canon_reg. cbn [scheme path registry repository tag digest].
    repeat split; auto; try discriminate.
    + cbn. now rewrite andb_false_r.
    + destruct tg; [|tauto]. destruct dgv; [right; reflexivity|tauto].
    + destruct tg; [|left; discriminate]. destruct dgv; [left; discriminate|right; discriminate].
  - exists (x :: rc'). unfold canon_reg. cbn [scheme path registry repository tag digest].
    repeat split; auto; try discriminate.
    + destruct tg; [|tauto]. destruct dgv; [right; reflexivity|tauto].
    + destruct tg; [|left; discriminate]. destruct dgv; [left; discriminate|right; discriminate].
Qed.

Lemma parse_reg_canon tail r : parse_reg tail = Some r -> exists rc, canon_reg r rc.
Proof.
  rewrite parse_reg_eq.
  destruct (match cut "@" tail with Some (l, d) => (l, Some d) | None => (tail, None) end) as [lft dg].
  unfold reg_body.
  destruct (match dg with Some d => negb (digest_ok d) | None => false end) eqn:Edg; [discriminate|].
  set (dgv := match dg with Some d => d | None => [] end).
  assert (Hdg : dgv = [] \/ digest_ok dgv = true).
  { subst dgv. destruct dg as [d|]; [right|left; reflexivity]. now destruct (digest_ok d). }
  destruct (pick_reg (splitc "/" lft)) as [reg rcomps] eqn:Ep.
  destruct (last_tag rcomps) as [[lname tg]|] eqn:El; [|discriminate].
  destruct (forallb repo_part (removelast rcomps ++ [lname])) eqn:Erp; cbn [negb]; [|discriminate].
  apply norm_canon; auto.
  - eapply pick_reg_ok; exact Ep.
  - eapply last_tag_ok; exact El.
Qed.

(* ---------- printing a canonical reference and parsing it again ---------- *)
Lemma take_lower_spec s : s = fst (take_lower s) ++ snd (take_lower s).
Proof.
  induction s as [|c s IH]; cbn; [reflexivity|]. destruct (is_lower c); [|reflexivity].
  destruct (take_lower s) as [a b]. cbn in *. now f_equal.
Qed.
Lemma take_lower_app g c x : is_lower c = false ->
  take_lower (g ++ c :: x) = (fst (take_lower g), snd (take_lower g) ++ c :: x).
Proof.
  intros Hc. induction g as [|d g IH]; cbn; [now rewrite Hc|].
  destruct (is_lower d); [|reflexivity]. rewrite IH. destruct (take_lower g); reflexivity.
Qed.
Lemma strip_sep_none g' c rest : alln (ne "/") g' = true -> ne "/" c = true ->
  strip_prefix s_sep (g' ++ "/"%char :: c :: rest) = None.
Proof.
  intros Hg Hc. unfold ne in Hc. apply negb_true_iff in Hc. rewrite Ascii.eqb_sym in Hc.
  change s_sep with [":"%char; "/"%char; "/"%char].
  destruct g' as [|x [|y g'']]; cbn [app strip_prefix].
  - reflexivity.
  - destruct (Ascii.eqb ":" x); [|reflexivity]. now rewrite Ascii.eqb_refl, Hc.
  - destruct (Ascii.eqb ":" x); [|reflexivity]. cbn [alln] in Hg. apply andb_prop in Hg as [_ Hg]. apply andb_prop in Hg as [Hy _].
    unfold ne in Hy. apply negb_true_iff in Hy. rewrite Ascii.eqb_sym in Hy. now rewrite Hy.
Qed.
Lemma split_scheme_reg g c rest : alln (ne "/") g = true -> ne "/" c = true ->
  split_scheme (g ++ "/"%char :: c :: rest) = ([], g ++ "/"%char :: c :: rest).
Proof.
  intros Hg Hc. unfold split_scheme. rewrite (take_lower_app g "/"%char (c :: rest) eq_refl).
  pose proof (take_lower_spec g) as Hs. destruct (take_lower g) as [a b]. cbn [fst snd] in *.
  destruct a as [|a0 a']; [reflexivity|].
  rewrite strip_sep_none; [reflexivity| |exact Hc].
  rewrite Hs, alln_app in Hg. now apply andb_prop in Hg as [_ ?].
Qed.

Lemma joinc_cons sep y l : l <> [] -> joinc sep (y :: l) = y ++ sep :: joinc sep l.
Proof. destruct l; [congruence|reflexivity]. Qed.
Lemma snoc_not_nil {A} (l : list A) a : l ++ [a] <> [].
Proof. destruct l; discriminate. Qed.
Lemma joinc_snoc sep l a x : joinc sep (l ++ [a]) ++ x = joinc sep (l ++ [a ++ x]).
Proof.
  induction l as [|y l IH]; [reflexivity|]. cbn [app].
  rewrite !joinc_cons by apply snoc_not_nil. rewrite <- app_assoc. cbn. now rewrite IH.
Qed.
Lemma joinc_nonempty sep y ys : y <> [] -> joinc sep (y :: ys) <> [].
Proof. destruct y as [|c y]; [congruence|]. destruct ys; cbn; discriminate. Qed.

Lemma registry_nonempty g : registry_ok g = true -> g <> [].
Proof. intros H ->. discriminate. Qed.

Definition tagpart (t : str) : str := match t with [] => [] | _ => ":"%char :: t end.
Definition digpart (d : str) : str := match d with [] => [] | _ => "@"%char :: d end.

Lemma reg_body_core (g : str) (init : list str) (lst t : str) (dg : option str) :
  registry_ok g = true -> str_eqb g s_docker_dns = false -> str_eqb g s_docker_legacy = false ->
  forallb repo_part (init ++ [lst]) = true ->
  (str_eqb g s_docker && negb (existsb (c_is "/") (joinc "/" (init ++ [lst])))) = false ->
  (t = [] \/ tag_ok t = true) -> (t <> [] \/ match dg with Some d => d | None => [] end <> []) ->
  match dg with Some d => negb (digest_ok d) | None => false end = false ->
  reg_body (g ++ "/"%char :: joinc "/" (init ++ [lst]) ++ tagpart t) dg
  = Some (mkRef s_reg g (joinc "/" (init ++ [lst])) t (match dg with Some d => d | None => [] end) []).
Proof.
  intros Hg Hdns Hleg Hrc Hdock Ht Htd Hdchk.
  assert (Hgs : alln (ne "/") g = true).
  { eapply alln_impl; [|apply registry_chars; exact Hg]. intros c Hc. apply nsa_noslash, regch_nsa, Hc. }
  rewrite forallb_app in Hrc. apply andb_prop in Hrc as [Hinit Hlst]. cbn in Hlst. rewrite andb_true_r in Hlst.
  assert (Htp : alln c_plain t = true).
  { destruct Ht as [->|Ht]; [reflexivity|]. now apply tag_plain. }
  assert (Hlt : alln (ne "/") (lst ++ tagpart t) = true).
  { rewrite alln_app. rewrite (alln_impl _ _ _ plain_noslash (repo_part_plain _ Hlst)). unfold tagpart.
    destruct t as [|t0 t']; [reflexivity|]. change (alln (ne "/") (":"%char :: t0 :: t')) with (alln (ne "/") (t0 :: t')).
    eapply alln_impl; [exact plain_noslash|exact Htp]. }
  assert (Hsplit : splitc "/" (g ++ "/"%char :: joinc "/" (init ++ [lst]) ++ tagpart t) = g :: init ++ [lst ++ tagpart t]).
  { rewrite joinc_snoc. rewrite <- (joinc_cons "/" g) by apply snoc_not_nil.
    apply splitc_joinc; [discriminate|]. cbn [forallb]. rewrite Hgs. rewrite forallb_app. cbn [forallb andb].
    rewrite Hlt, andb_true_r. eapply forallb_impl; [|exact Hinit].
    intros y Hy. eapply alln_impl; [exact plain_noslash|]. now apply repo_part_plain. }
  unfold reg_body.
  rewrite Hdchk. set (dgv := match dg with Some d => d | None => [] end) in *. clearbody dgv. cbv zeta. rewrite Hsplit.
  assert (Hpick : pick_reg (g :: init ++ [lst ++ tagpart t]) = (g, init ++ [lst ++ tagpart t])).
  { unfold pick_reg. destruct (init ++ [lst ++ tagpart t]) as [|y ys] eqn:E; [now apply snoc_not_nil in E|]. now rewrite Hg. }
  rewrite Hpick.
  assert (Hlast : last_tag (init ++ [lst ++ tagpart t]) = Some (lst, t)).
  { unfold last_tag. rewrite last_last. pose proof (alln_impl _ _ _ plain_nocolon (repo_part_plain _ Hlst)) as Hl.
    destruct t as [|t0 t'].
    - cbn [tagpart]. rewrite app_nil_r. now rewrite cut_none.
    - cbn [tagpart]. rewrite cut_app by exact Hl. destruct Ht as [Ht|Ht]; [discriminate|]. now rewrite Ht. }
  rewrite Hlast. rewrite removelast_last.
  rewrite forallb_app, Hinit. cbn [forallb]. rewrite Hlst. cbn [andb negb].
  unfold norm, shift_local. destruct g as [|g0 g']; [discriminate|].
  unfold norm2. cbv beta iota zeta.
  rewrite Hdns, Hleg. cbn [orb]. rewrite Hdock.
  destruct (init ++ [lst]) as [|y ys] eqn:E; [now apply snoc_not_nil in E|].
  assert (Hy : y <> []).
  { assert (Hry : repo_part y = true).
    { destruct init as [|i0 init']; cbn in E; injection E as <- _; [exact Hlst|]. cbn in Hinit. now apply andb_prop in Hinit as [? _]. }
    apply repo_part_head in Hry as (c & s' & -> & _). discriminate. }
  pose proof (joinc_nonempty "/" y ys Hy) as Hj. destruct (joinc "/" (y :: ys)) as [|j0 j'] eqn:Ej; [exfalso; apply Hj; exact Ej|].
  f_equal. f_equal. destruct t; [|reflexivity]. destruct dgv; [|reflexivity]. destruct Htd as [Hx|Hx]; exfalso; apply Hx; reflexivity.
Qed.

Lemma joinc_alln q sep l : q sep = true -> forallb (alln q) l = true -> alln q (joinc sep l) = true.
Proof.
  intros Hq. induction l as [|x l IH]; [reflexivity|]. cbn [forallb]. intro H. apply andb_prop in H as [Hx Hl].
  destruct l as [|y l]; [exact Hx|]. rewrite joinc_cons by discriminate. rewrite alln_app, Hx. cbn [alln]. rewrite Hq. now apply IH.
Qed.
Lemma repo_head init lst : forallb repo_part (init ++ [lst]) = true ->
  exists c s', joinc "/" (init ++ [lst]) = c :: s' /\ ne "/" c = true.
Proof.
  intro H. destruct (init ++ [lst]) as [|y ys] eqn:E; [now apply snoc_not_nil in E|].
  cbn [forallb] in H. apply andb_prop in H as [Hy _]. apply repo_part_head in Hy as (c & y' & -> & Hc).
  destruct ys as [|z ys].
  - exists c, y'. split; [reflexivity|]. now apply lownum_noslash.
  - rewrite joinc_cons by discriminate. exists c, (y' ++ "/"%char :: joinc "/" (z :: ys)). split; [reflexivity|]. now apply lownum_noslash.
Qed.

Lemma canon_reg_reparse r rc : canon_reg r rc -> parse (print r) = Some r.
Proof.
  destruct r as [sc g repo t d p]. unfold canon_reg. cbn [scheme registry repository tag digest path].
  intros (-> & -> & Hg & Hdns & Hleg & Hne & Hrc & -> & Hdock & Ht & Hd & Htd).
  destruct (exists_last Hne) as (init & lst & ->).
  destruct (repo_head _ _ Hrc) as (c & s' & Hrepo & Hc).
  assert (Hgs : alln c_nsa g = true) by (eapply alln_impl; [exact regch_nsa|apply registry_chars; exact Hg]).
  assert (Hprint : print (mkRef s_reg g (joinc "/" (init ++ [lst])) t d [])
                   = (g ++ "/"%char :: joinc "/" (init ++ [lst]) ++ tagpart t) ++ digpart d).
  { unfold print. cbn [scheme registry repository tag digest path]. change (str_eqb s_reg s_reg) with true. cbv iota.
    rewrite Hrepo. rewrite <- Hrepo. destruct g as [|g0 g']; [discriminate|].
    unfold tagpart, digpart. rewrite <- !app_assoc. cbn [app]. destruct t; destruct d; rewrite <- ?app_assoc; reflexivity. }
  rewrite Hprint.
  assert (Hlft : alln (ne "@") (g ++ "/"%char :: joinc "/" (init ++ [lst]) ++ tagpart t) = true).
  { rewrite alln_app. rewrite (alln_impl _ _ _ nsa_noat Hgs). cbn [alln andb]. change (ne "@" "/") with true. cbn [andb].
    rewrite alln_app. rewrite joinc_alln; [|reflexivity|].
    - unfold tagpart. destruct t as [|t0 t']; [reflexivity|]. destruct Ht as [Ht|Ht]; [discriminate|].
      change (alln (ne "@") (":"%char :: t0 :: t')) with (alln (ne "@") (t0 :: t')).
      eapply alln_impl; [exact plain_noat|]. now apply tag_plain.
    - eapply forallb_impl; [|exact Hrc]. intros y Hy. eapply alln_impl; [exact plain_noat|]. now apply repo_part_plain. }
  unfold parse.
  assert (Hsch : split_scheme ((g ++ "/"%char :: joinc "/" (init ++ [lst]) ++ tagpart t) ++ digpart d)
                 = ([], (g ++ "/"%char :: joinc "/" (init ++ [lst]) ++ tagpart t) ++ digpart d)).
  { rewrite Hrepo. rewrite <- app_assoc. cbn [app].
    apply split_scheme_reg; [|exact Hc]. eapply alln_impl; [exact nsa_noslash|exact Hgs]. }
  rewrite Hsch. rewrite parse_reg_eq.
  destruct d as [|d0 d'].
  - cbn [digpart]. rewrite app_nil_r. rewrite cut_none by exact Hlft.
    apply (reg_body_core g init lst t None); auto.
  - cbn [digpart]. rewrite cut_app by exact Hlft.
    apply (reg_body_core g init lst t (Some (d0 :: d'))); auto.
    destruct Hd as [Hd|Hd]; [discriminate|]. now rewrite Hd.
Qed.

(* ---------- OCI layout references ---------- *)
Definition canon_oci (r : ref) : Prop :=
  (scheme r = s_ocidir \/ scheme r = s_ocifile) /\ path_ok (path r) = true /\ registry r = [] /\ repository r = [] /\
  (tag r = [] \/ tag_ok (tag r) = true) /\ (digest r = [] \/ digest_ok (digest r) = true).

Lemma parse_oci_canon sc tail r : (sc = s_ocidir \/ sc = s_ocifile) -> parse_oci sc tail = Some r -> canon_oci r.
Proof.
  intros Hsc. unfold parse_oci, parse_suffix_at.
  destruct (cut "@" tail) as [[l d]|].
  - destruct (digest_ok d) eqn:Ed; cbn [negb]; [|discriminate].
    destruct (cut ":" l) as [[n t]|].
    + destruct (tag_ok t) eqn:Et; [|discriminate]. destruct (path_ok n) eqn:Ep; [|discriminate].
      intro H; injection H as <-. unfold canon_oci; cbn. repeat split; auto.
    + destruct (path_ok l) eqn:Ep; [|discriminate].
      intro H; injection H as <-. unfold canon_oci; cbn. repeat split; auto.
  - destruct (cut ":" tail) as [[n t]|].
    + destruct (tag_ok t) eqn:Et; [|discriminate]. destruct (path_ok n) eqn:Ep; [|discriminate].
      intro H; injection H as <-. unfold canon_oci; cbn. repeat split; auto.
    + destruct (path_ok tail) eqn:Ep; [|discriminate].
      intro H; injection H as <-. unfold canon_oci; cbn. repeat split; auto.
Qed.

Lemma split_scheme_oci sc rest : (sc = s_ocidir \/ sc = s_ocifile) -> rest <> [] -> existsb c_nl rest = false ->
  split_scheme (sc ++ s_sep ++ rest) = (sc, rest).
Proof.
  intros Hsc Hne Hnl. unfold split_scheme.
  destruct Hsc as [->| ->].
  - change (take_lower (s_ocidir ++ s_sep ++ rest)) with (s_ocidir, s_sep ++ rest). cbv beta iota.
    change (strip_prefix s_sep (s_sep ++ rest)) with (Some rest). destruct rest as [|c rest]; [congruence|]. now rewrite Hnl.
  - change (take_lower (s_ocifile ++ s_sep ++ rest)) with (s_ocifile, s_sep ++ rest). cbv beta iota.
    change (strip_prefix s_sep (s_sep ++ rest)) with (Some rest). destruct rest as [|c rest]; [congruence|]. now rewrite Hnl.
Qed.

Lemma existsb_nl_app a b : existsb c_nl (a ++ b) = existsb c_nl a || existsb c_nl b.
Proof. apply existsb_app. Qed.

Lemma canon_oci_reparse r : canon_oci r -> parse (print r) = Some r.
Proof.
  destruct r as [sc g repo t d p]. unfold canon_oci. cbn [scheme registry repository tag digest path].
  intros (Hsc & Hp & -> & -> & Ht & Hd).
  destruct (path_plain _ Hp) as [Hpp Hpne].
  assert (Htp : alln c_plain t = true) by (destruct Ht as [->|Ht]; [reflexivity|now apply tag_plain]).
  assert (Hdp : alln c_digch d = true) by (destruct Hd as [->|Hd]; [reflexivity|now apply digest_chars]).
  assert (Hprint : print (mkRef sc [] [] t d p) = sc ++ s_sep ++ (p ++ tagpart t) ++ digpart d).
  { unfold print. cbn [scheme registry repository tag digest path].
    assert (E : str_eqb sc s_reg = false) by (destruct Hsc as [->| ->]; reflexivity). rewrite E.
    assert (E2 : str_eqb sc s_ocidir || str_eqb sc s_ocifile = true) by (destruct Hsc as [->| ->]; reflexivity). rewrite E2.
    unfold tagpart, digpart. destruct t; destruct d; rewrite <- ?app_assoc; reflexivity. }
  rewrite Hprint. unfold parse.
  assert (Hlft : alln (ne "@") (p ++ tagpart t) = true).
  { rewrite alln_app. rewrite (alln_impl _ _ _ pplain_noat Hpp). unfold tagpart. destruct t as [|t0 t']; [reflexivity|].
    change (alln (ne "@") (":"%char :: t0 :: t')) with (alln (ne "@") (t0 :: t')). eapply alln_impl; [exact plain_noat|exact Htp]. }
  rewrite split_scheme_oci; [|exact Hsc| |].
  2:{ destruct p; [congruence|discriminate]. }
  2:{ rewrite !existsb_nl_app. rewrite (alln_nonl _ _ pplain_nonl Hpp). cbn [orb].
      assert (E1 : existsb c_nl (tagpart t) = false).
      { unfold tagpart. destruct t as [|t0 t']; [reflexivity|]. change (existsb c_nl (":"%char :: t0 :: t')) with (existsb c_nl (t0 :: t')).
        eapply alln_nonl; [exact plain_nonl|exact Htp]. }
      rewrite E1. cbn [orb]. unfold digpart. destruct d as [|d0 d']; [reflexivity|].
      change (existsb c_nl ("@"%char :: d0 :: d')) with (existsb c_nl (d0 :: d')). eapply alln_nonl; [exact digch_nonl|exact Hdp]. }
  assert (E2 : str_eqb sc s_ocidir || str_eqb sc s_ocifile = true) by (destruct Hsc as [->| ->]; reflexivity).
  destruct sc as [|sc0 sc']; [destruct Hsc; discriminate|]. rewrite E2.
  unfold parse_oci.
  assert (Hsuf : forall dg, match dg with Some d0 => negb (digest_ok d0) | None => false end = false ->
            parse_suffix_at (p ++ tagpart t) dg = Some (p, t, match dg with Some d0 => d0 | None => [] end)).
  { intros dg Hdg. unfold parse_suffix_at. rewrite Hdg.
    pose proof (alln_impl _ _ _ pplain_nocolon Hpp) as Hpc. unfold tagpart. destruct t as [|t0 t'].
    - rewrite app_nil_r. now rewrite cut_none.
    - rewrite cut_app by exact Hpc. destruct Ht as [Ht|Ht]; [discriminate|]. now rewrite Ht. }
  destruct d as [|d0 d'].
  - cbn [digpart]. rewrite app_nil_r. rewrite cut_none by exact Hlft. rewrite (Hsuf None eq_refl). now rewrite Hp.
  - cbn [digpart]. rewrite cut_app by exact Hlft. unfold str in *. rewrite (Hsuf (Some (d0 :: d'))).
    + now rewrite Hp.
    + destruct Hd as [Hd|Hd]; [discriminate|]. now rewrite Hd.
Qed.

(* ---------- the round trip ---------- *)
Theorem parse_print_roundtrip s r : parse s = Some r -> parse (print r) = Some r.
Proof.
  unfold parse at 1. destruct (split_scheme s) as [sc tail]. destruct sc as [|c sc].
  - intro H. apply parse_reg_canon in H as [rc H]. eapply canon_reg_reparse; exact H.
  - destruct (str_eqb (c :: sc) s_ocidir) eqn:E1; cbn [orb].
    + intro H. apply parse_oci_canon in H; [|left; now apply str_eqb_eq]. now apply canon_oci_reparse.
    + destruct (str_eqb (c :: sc) s_ocifile) eqn:E2; [|discriminate].
      intro H. apply parse_oci_canon in H; [|right; now apply str_eqb_eq]. now apply canon_oci_reparse.
Qed.

(* replacing the tag of an accepted reference by a well-formed one (or its digest) gives a reference whose
   canonical form parses back to exactly the edited components *)
Lemma canon_set_tag r rc t : canon_reg r rc -> tag_ok t = true -> canon_reg (set_tag r t) rc.
Proof.
  unfold canon_reg. destruct r as [sc g repo t0 d p]. cbn. intros (H1 & H2 & H3 & H4 & H5 & H6 & H7 & H8 & H9 & _) Ht.
  repeat split; auto. left. intros ->. discriminate.
Qed.
Lemma canon_set_digest r rc d : canon_reg r rc -> digest_ok d = true -> canon_reg (set_digest r d) rc.
Proof.
  unfold canon_reg. destruct r as [sc g repo t0 d0 p]. cbn. intros (H1 & H2 & H3 & H4 & H5 & H6 & H7 & H8 & H9 & _) Hd.
  repeat split; auto. right. intros ->. discriminate.
Qed.
Lemma canon_add_digest r rc d : canon_reg r rc -> digest_ok d = true -> canon_reg (add_digest r d) rc.
Proof.
  unfold canon_reg. destruct r as [sc g repo t0 d0 p]. cbn. intros (H1 & H2 & H3 & H4 & H5 & H6 & H7 & H8 & H9 & H10 & _) Hd.
  repeat split; auto. right. intros ->. discriminate.
Qed.
Lemma canon_oci_set_tag r t : canon_oci r -> tag_ok t = true -> canon_oci (set_tag r t).
Proof. unfold canon_oci. destruct r; cbn. intros (H1 & H2 & H3 & H4 & _) Ht. repeat split; auto. Qed.
Lemma canon_oci_set_digest r d : canon_oci r -> digest_ok d = true -> canon_oci (set_digest r d).
Proof. unfold canon_oci. destruct r; cbn. intros (H1 & H2 & H3 & H4 & _) Hd. repeat split; auto. Qed.
Lemma canon_oci_add_digest r d : canon_oci r -> digest_ok d = true -> canon_oci (add_digest r d).
Proof. unfold canon_oci. destruct r; cbn. intros (H1 & H2 & H3 & H4 & H5 & _) Hd. repeat split; auto. Qed.

Definition canonical (r : ref) : Prop := (exists rc, canon_reg r rc) \/ canon_oci r.
Lemma parse_canonical s r : parse s = Some r -> canonical r.
Proof.
  unfold parse. destruct (split_scheme s) as [sc tail]. destruct sc as [|c sc].
  - intro H. left. eapply parse_reg_canon; exact H.
  - destruct (str_eqb (c :: sc) s_ocidir) eqn:E1; cbn [orb].
    + intro H. right. eapply parse_oci_canon; [|exact H]. left; now apply str_eqb_eq.
    + destruct (str_eqb (c :: sc) s_ocifile) eqn:E2; [|discriminate].
      intro H. right. eapply parse_oci_canon; [|exact H]. right; now apply str_eqb_eq.
Qed.
Lemma canonical_reparse r : canonical r -> parse (print r) = Some r.
Proof. intros [[rc H]|H]; [eapply canon_reg_reparse; exact H|now apply canon_oci_reparse]. Qed.

Theorem edit_roundtrip s r : parse s = Some r ->
  (forall t, tag_ok t = true -> parse (print (set_tag r t)) = Some (set_tag r t)) /\
  (forall d, digest_ok d = true -> parse (print (set_digest r d)) = Some (set_digest r d)) /\
  (forall d, digest_ok d = true -> parse (print (add_digest r d)) = Some (add_digest r d)).
Proof.
  intro H. apply parse_canonical in H. repeat split; intros x Hx; apply canonical_reparse; destruct H as [[rc H]|H].
  - left; exists rc; now apply canon_set_tag.
  - right; now apply canon_oci_set_tag.
  - left; exists rc; now apply canon_set_digest.
  - right; now apply canon_oci_set_digest.
  - left; exists rc; now apply canon_add_digest.
  - right; now apply canon_oci_add_digest.
Qed.
