(* Proofs/Pins14.v — the three conditions of the head ladder of imageCopyOpt, as they are in image.go; Model/C14_Head.v transliterates them *)
From Coq Require Import List String Bool.
From Verif Require Import Gen.CondPins.
Import ListNotations.
Open Scope string_scope.
Example C14_head_ladder_conditions_pinned :
  filter (fun p => String.prefix "copy_head" (fst p)) cond_pins =
  [("copy_head_compare", "err == nil && (opt.fastCheck || (!opt.forceRecursive && opt.referrerConfs == nil && !opt.digestTags))");
   ("copy_head_digest_only", "mTgt != nil && mSrc == nil && !opt.forceRecursive && sDig == """"");
   ("copy_head_need_body", "sDig == """" || mTgt == nil || sDig != mTgt.GetDescriptor().Digest || opt.forceRecursive || mTgt.IsList()")].
Proof. reflexivity. Qed.
