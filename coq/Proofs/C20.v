(* Proofs/C20.v — lemmas about Clean / Join and the destination computations *)
From Coq Require Import List String Ascii Bool NArith Arith Lia.
From Verif Require Import Base.StrX Model.C15_Ref Model.C20_Paths Proofs.C15.
Import ListNotations.
Close Scope string_scope.
Open Scope list_scope.

Definition nonempty (c : comp) : bool := match c with [] => false | _ => true end.
(* a component Clean keeps verbatim: not "", ".", ".." *)
Definition safe_comp (c : comp) : bool := nonempty c && negb (str_eqb c s_dot) && negb (str_eqb c s_dotdot).
(* a component that cannot move the path upwards: "" and "." are dropped, anything but ".." is kept *)
Definition benign_comp (c : comp) : bool := negb (str_eqb c s_dotdot).
Definition keeps (c : comp) : bool := nonempty c && negb (str_eqb c s_dot).

Lemma step_benign r st c : benign_comp c = true -> step r st c = if keeps c then c :: st else st.
Proof.
  unfold benign_comp, step, keeps, nonempty. intro H. apply negb_true_iff in H. rewrite H.
  destruct c; cbn [orb nonempty andb negb]; [reflexivity|]. destruct (str_eqb (a :: c) s_dot); reflexivity.
Qed.

Lemma clean_stack_benign r : forall cs st, forallb benign_comp cs = true ->
  clean_stack r st cs = rev (filter keeps cs) ++ st.
Proof.
  unfold clean_stack. induction cs as [|c cs IH]; intros st H; cbn; [reflexivity|].
  cbn in H. apply andb_prop in H as [Hc Hcs]. rewrite (step_benign _ _ _ Hc), IH by exact Hcs.
  destruct (keeps c); cbn; [now rewrite <- app_assoc|reflexivity].
Qed.

Lemma clean_stack_app r st a b : clean_stack r st (a ++ b) = clean_stack r (clean_stack r st a) b.
Proof. unfold clean_stack. apply fold_left_app. Qed.

(* rooted cleaning never keeps "..", "." or "" *)
Lemma step_rooted_safe st c : forallb safe_comp st = true -> forallb safe_comp (step true st c) = true.
Proof.
  intro H. unfold step.
  destruct c as [|x c]; cbn [orb]; [exact H|].
  destruct (str_eqb (x :: c) s_dot) eqn:E1; cbn [orb]; [exact H|].
  destruct (str_eqb (x :: c) s_dotdot) eqn:E2.
  - destruct st as [|top st']; [reflexivity|]. cbn in H. apply andb_prop in H as [Ht Hs].
    destruct (str_eqb top s_dotdot) eqn:E3; [|exact Hs].
    unfold safe_comp in Ht. rewrite E3 in Ht. rewrite andb_false_r in Ht. discriminate.
  - cbn. unfold safe_comp at 1. cbn [nonempty]. rewrite E1, E2. cbn. exact H.
Qed.

Lemma clean_stack_rooted_safe : forall cs st, forallb safe_comp st = true ->
  forallb safe_comp (clean_stack true st cs) = true.
Proof.
  unfold clean_stack. induction cs as [|c cs IH]; intros st H; cbn; [exact H|].
  apply IH. now apply step_rooted_safe.
Qed.

Lemma forallb_rev {A} (p : A -> bool) l : forallb p (rev l) = forallb p l.
Proof.
  induction l as [|x l IH]; cbn; [reflexivity|]. rewrite forallb_app, IH. cbn. rewrite andb_true_r. apply andb_comm.
Qed.

Lemma clean_comps_rooted_safe cs : forallb safe_comp (clean_comps true cs) = true.
Proof. unfold clean_comps. rewrite forallb_rev. now apply clean_stack_rooted_safe. Qed.

(* ---------- splitting and joining ---------- *)
Definition nosep (sep : ascii) (s : str) : bool := negb (existsb (fun c => Ascii.eqb c sep) s).

Lemma splitc_nonnil sep s : splitc sep s <> [].
Proof. destruct s as [|c s]; cbn; [discriminate|]. destruct (Ascii.eqb c sep); [discriminate|]. destruct (splitc sep s); discriminate. Qed.

Lemma splitc_app_sep sep : forall a b, splitc sep (a ++ sep :: b) = splitc sep a ++ splitc sep b.
Proof.
  induction a as [|c a IH]; intro b; cbn.
  - now rewrite Ascii.eqb_refl.
  - destruct (Ascii.eqb c sep); [now rewrite IH|].
    rewrite IH. destruct (splitc sep a) as [|h t] eqn:E; [now apply splitc_nonnil in E|]. reflexivity.
Qed.

Lemma splitc_nosep sep s : nosep sep s = true -> splitc sep s = [s].
Proof.
  unfold nosep. induction s as [|c s IH]; cbn; [reflexivity|].
  destruct (Ascii.eqb c sep); cbn; [discriminate|]. intro H. now rewrite IH.
Qed.

Lemma splitc_joinc sep : forall cs, cs <> [] -> forallb (nosep sep) cs = true -> splitc sep (joinc sep cs) = cs.
Proof.
  induction cs as [|c cs IH]; intros Hne H; [congruence|].
  cbn in H. apply andb_prop in H as [Hc Hcs].
  destruct cs as [|d cs]; [cbn; now apply splitc_nosep|].
  change (joinc sep (c :: d :: cs)) with (c ++ sep :: joinc sep (d :: cs)).
  rewrite splitc_app_sep, (splitc_nosep _ _ Hc), IH; [reflexivity|discriminate|exact Hcs].
Qed.

Lemma splitc_comps_nosep sep : forall s, forallb (nosep sep) (splitc sep s) = true.
Proof.
  induction s as [|c s IH]; cbn; [reflexivity|].
  destruct (Ascii.eqb c sep) eqn:E; cbn; [exact IH|].
  destruct (splitc sep s) as [|h t]; cbn in *; [unfold nosep; cbn; now rewrite E|].
  apply andb_prop in IH as [Hh Ht]. rewrite Ht, andb_true_r. unfold nosep in *. cbn. now rewrite E.
Qed.

(* the elements Clean keeps are elements of the input, or ".." *)
Lemma step_subset r st c x : In x (step r st c) -> In x st \/ x = c \/ x = s_dotdot.
Proof.
  unfold step. destruct (match c with [] => true | _ => false end || str_eqb c s_dot); [auto|].
  destruct (str_eqb c s_dotdot).
  - destruct st as [|top st']; [destruct r; cbn; [tauto|intros [<-|[]]; auto]|].
    destruct (str_eqb top s_dotdot); cbn; [intros [<-|H]; auto|intro H; left; now right].
  - cbn. intros [<-|H]; auto.
Qed.
Lemma clean_stack_subset r : forall cs st x, In x (clean_stack r st cs) -> In x st \/ In x cs \/ x = s_dotdot.
Proof.
  unfold clean_stack. induction cs as [|c cs IH]; intros st x H; cbn in *; [auto|].
  apply IH in H as [H|[H|H]]; auto. apply step_subset in H as [H|[H|H]]; auto.
Qed.

Lemma clean_comps_nosep r s : forallb (nosep "/") (clean_comps r (splitc "/" s)) = true.
Proof.
  apply forallb_forall. intros x Hx. unfold clean_comps in Hx. apply in_rev in Hx.
  apply clean_stack_subset in Hx. destruct Hx as [Hx|[Hx|Hx]]; [destruct Hx| |subst x; reflexivity].
  pose proof (splitc_comps_nosep "/" s) as H. rewrite forallb_forall in H. now apply H.
Qed.

(* ---------- render: how Clean prints a component list ---------- *)
Definition render (rooted : bool) (cs : list comp) : str :=
  let body := joinc "/" cs in
  if rooted then "/"%char :: body else match body with [] => s_dot | _ => body end.

Lemma clean_render s : s <> [] -> clean s = render (is_rooted s) (clean_comps (is_rooted s) (splitc "/" s)).
Proof. destruct s; [congruence|reflexivity]. Qed.

(* C20_clean_rooted: Clean("/"+s) is "/" followed by components none of which is "", "." or ".." *)
Lemma clean_rooted s : exists cs,
  clean ("/"%char :: s) = "/"%char :: joinc "/" cs /\ forallb safe_comp cs = true /\ forallb (nosep "/") cs = true.
Proof.
  exists (clean_comps true (splitc "/" ("/"%char :: s))). split; [reflexivity|].
  split; [apply clean_comps_rooted_safe|apply clean_comps_nosep].
Qed.

Lemma safe_benign c : safe_comp c = true -> benign_comp c = true /\ keeps c = true.
Proof.
  unfold safe_comp, benign_comp, keeps. intro H. apply andb_prop in H as [H H3]. apply andb_prop in H as [H1 H2].
  now rewrite H1, H2, H3.
Qed.

(* a string is benign when none of its "/"-components is ".." *)
Definition benign_str (f : str) : bool := forallb benign_comp (splitc "/" f).
Definition kept (f : str) : list comp := filter keeps (splitc "/" f).

(* joining a benign string under [dir]: the result is Clean(dir)'s components followed by the kept
   components of f — it cannot climb out of dir *)
Lemma join_contained dir f : dir <> [] -> f <> [] -> benign_str f = true ->
  join [dir; f] = render (is_rooted dir) (clean_comps (is_rooted dir) (splitc "/" dir) ++ kept f).
Proof.
  intros Hd Hf Hb. unfold join.
  destruct dir as [|d0 dir]; [congruence|]. destruct f as [|f0 f]; [congruence|]. cbn [filter].
  change (joinc "/" [d0 :: dir; f0 :: f]) with ((d0 :: dir) ++ "/"%char :: (f0 :: f)).
  rewrite clean_render by (cbn; discriminate).
  assert (Hr : is_rooted ((d0 :: dir) ++ "/"%char :: f0 :: f) = is_rooted (d0 :: dir)) by reflexivity.
  rewrite Hr. f_equal.
  rewrite splitc_app_sep. unfold clean_comps. rewrite clean_stack_app.
  rewrite (clean_stack_benign _ _ _ Hb). rewrite rev_app_distr, rev_involutive. reflexivity.
Qed.

Lemma kept_not_dotdot f : forallb safe_comp (kept f) = true \/ True.
Proof. now right. Qed.

Lemma kept_safe f : benign_str f = true -> forallb safe_comp (kept f) = true.
Proof.
  unfold benign_str, kept. induction (splitc "/" f) as [|c cs IH]; cbn; [reflexivity|].
  intro H. apply andb_prop in H as [Hc Hcs]. destruct (keeps c) eqn:Ek; [|now apply IH].
  cbn. rewrite IH by exact Hcs. unfold safe_comp. unfold keeps in Ek. unfold benign_comp in Hc.
  apply andb_prop in Ek as [E1 E2]. now rewrite E1, E2, Hc.
Qed.

(* benign strings: the shapes produced by runArtifactGet *)
Lemma benign_rooted_clean s : benign_str (clean ("/"%char :: s)) = true.
Proof.
  destruct (clean_rooted s) as (cs & -> & Hs & Hn). unfold benign_str.
  change ("/"%char :: joinc "/" cs) with ([] ++ "/"%char :: joinc "/" cs). rewrite splitc_app_sep. cbn [splitc app forallb].
  change (benign_comp []) with true. cbn [andb].
  destruct cs as [|c cs]; [reflexivity|]. rewrite splitc_joinc by (discriminate || exact Hn).
  eapply forallb_forall. intros x Hx. rewrite forallb_forall in Hs. now apply safe_benign, Hs.
Qed.

Lemma benign_app_slash f : benign_str f = true -> benign_str (f ++ ["/"%char]) = true.
Proof.
  unfold benign_str. intro H. rewrite splitc_app_sep. rewrite forallb_app. apply andb_true_intro; split; [exact H|reflexivity].
Qed.

Lemma from_last_slash_shape : forall s,
  (exists a b, s = a ++ "/"%char :: b /\ from_last_slash s = "/"%char :: b) \/ from_last_slash s = s.
Proof.
  induction s as [|c s IH]; [now right|]. cbn.
  destruct (existsb (c_is "/") s) eqn:E; [|now right].
  destruct IH as [(a & b & -> & Hb)|Hs].
  - left. exists (c :: a), b. split; [reflexivity|exact Hb].
  - left. destruct s as [|c' s']; [discriminate|]. cbn [from_last_slash] in Hs. cbn [existsb] in E.
    destruct (existsb (c_is "/") s') eqn:E'.
    + (* from_last_slash (c'::s') = from_last_slash s' = c'::s' is impossible by length *)
      exfalso. clear -Hs. assert (Hl : forall t, List.length (from_last_slash t) <= List.length t).
      { induction t as [|x t IHt]; cbn; [lia|]. destruct (existsb (c_is "/") t); cbn; lia. }
      specialize (Hl s'). rewrite Hs in Hl. cbn in Hl. lia.
    + destruct (c_is "/" c') eqn:Ec; [|discriminate E]. unfold c_is in Ec. apply Ascii.eqb_eq in Ec. subst c'.
      exists [c], s'. split; [reflexivity|]. cbn [from_last_slash]. rewrite E'. reflexivity.
Qed.

Lemma benign_from_last_slash f : benign_str f = true -> benign_str (from_last_slash f) = true.
Proof.
  intro H. destruct (from_last_slash_shape f) as [(a & b & -> & ->)| ->]; [|exact H].
  unfold benign_str in *. rewrite splitc_app_sep, forallb_app in H. apply andb_prop in H as [_ H].
  change ("/"%char :: b) with ([] ++ "/"%char :: b). rewrite splitc_app_sep. cbn [splitc app forallb]. exact H.
Qed.

(* the name computed by runArtifactGet is benign whatever the title, unpack flag and strip option *)
Definition artifact_name (title enc : str) (unpack strip : bool) : str :=
  let f0 := match title with [] => enc | _ => title end in
  let f := clean ("/"%char :: f0) in
  let f := if has_suffix_slash title || unpack then f ++ ["/"%char] else f in
  if strip then from_last_slash f else f.

Lemma artifact_name_benign title enc unpack strip : benign_str (artifact_name title enc unpack strip) = true.
Proof.
  unfold artifact_name.
  set (f := clean ("/"%char :: match title with [] => enc | _ => title end)).
  assert (H1 : benign_str f = true) by apply benign_rooted_clean.
  assert (H2 : benign_str (if has_suffix_slash title || unpack then f ++ ["/"%char] else f) = true).
  { destruct (has_suffix_slash title || unpack); [now apply benign_app_slash|exact H1]. }
  destruct strip; [now apply benign_from_last_slash|exact H2].
Qed.

Lemma nonempty_shape (f : str) (u strip : bool) : (exists t, f = "/"%char :: t) ->
  (if strip then from_last_slash (if u then f ++ ["/"%char] else f) else (if u then f ++ ["/"%char] else f)) <> [].
Proof.
  intros (t & ->). destruct u, strip; cbn [app]; try discriminate.
  - destruct (from_last_slash_shape ("/"%char :: t ++ ["/"%char])) as [(a & b & _ & Hb)|Hb]; rewrite Hb; discriminate.
  - destruct (from_last_slash_shape ("/"%char :: t)) as [(a & b & _ & Hb)|Hb]; rewrite Hb; discriminate.
Qed.

Lemma artifact_name_nonempty title enc unpack strip : artifact_name title enc unpack strip <> [].
Proof.
  unfold artifact_name. cbv zeta. apply nonempty_shape.
  destruct (clean_rooted (match title with [] => enc | _ => title end)) as (cs & E & _). eexists; exact E.
Qed.

Lemma artifact_target title enc unpack strip outdir :
  d_target (artifact_dest outdir title enc unpack strip) = join [outdir; artifact_name title enc unpack strip].
Proof. reflexivity. Qed.

Lemma artifact_contained outdir title enc unpack strip : outdir <> [] ->
  exists extra, forallb safe_comp extra = true /\
  d_target (artifact_dest outdir title enc unpack strip) =
    render (is_rooted outdir) (clean_comps (is_rooted outdir) (splitc "/" outdir) ++ extra).
Proof.
  intro Ho. exists (kept (artifact_name title enc unpack strip)). split.
  - apply kept_safe, artifact_name_benign.
  - rewrite artifact_target. apply join_contained; [exact Ho|apply artifact_name_nonempty|apply artifact_name_benign].
Qed.

Lemma extract_contained dir name : dir <> [] ->
  exists extra, forallb safe_comp extra = true /\
  extract_dest dir name = render (is_rooted dir) (clean_comps (is_rooted dir) (splitc "/" dir) ++ extra).
Proof.
  intro Hd. exists (kept (clean ("/"%char :: name))). split.
  - apply kept_safe, benign_rooted_clean.
  - unfold extract_dest. apply join_contained; [exact Hd| |apply benign_rooted_clean].
    destruct (clean_rooted name) as (cs & -> & _). discriminate.
Qed.

(* a validated digest yields two safe components without separators *)
Lemma alln_lhex_nosep h : alln c_lhex h = true -> nosep "/" h = true /\ (forall c, In c h -> c <> "."%char).
Proof.
  unfold nosep. induction h as [|c h IH]; cbn; [split; [reflexivity|intros c []]|].
  intro H. apply andb_prop in H as [Hc Hh]. destruct (IH Hh) as [IH1 IH2].
  assert (Hc' : c <> "/"%char /\ c <> "."%char).
  { split; intro; subst c; discriminate Hc. }
  destruct Hc' as [Hs Hd]. apply Ascii.eqb_neq in Hs. rewrite Hs. cbn. split; [exact IH1|].
  intros x [<-|Hx]; auto.
Qed.

Lemma digest_valid_safe d a h : digest_valid d = Some (a, h) ->
  safe_comp a = true /\ safe_comp h = true /\ nosep "/" a = true /\ nosep "/" h = true.
Proof.
  unfold digest_valid. destruct (cut ":" d) as [[a' h']|]; [|discriminate].
  destruct (str_eqb a' (of_string "sha256")) eqn:E1; [apply str_eqb_eq in E1|
  destruct (str_eqb a' (of_string "sha384")) eqn:E2; [apply str_eqb_eq in E2|
  destruct (str_eqb a' (of_string "sha512")) eqn:E3; [apply str_eqb_eq in E3|discriminate]]].
  all: cbn [negb Nat.eqb andb]; destruct (Nat.eqb (List.length h') _) eqn:El; cbn [andb]; [|discriminate];
       destruct (alln c_lhex h') eqn:Eh; [|discriminate]; intro H; injection H as <- <-; subst a';
       destruct (alln_lhex_nosep _ Eh) as [Hn Hdot];
       (split; [reflexivity|]); (split; [|split; [reflexivity|exact Hn]]);
       apply Nat.eqb_eq in El; unfold safe_comp;
       destruct h' as [|c0 [|c1 [|c2 h'']]]; try discriminate El; cbn [nonempty andb];
       assert (c0 <> "."%char) by (apply Hdot; now left);
       unfold str_eqb, s_dot, s_dotdot; cbn [list_eqb];
       destruct (Ascii.eqb_spec c0 "."); [congruence|reflexivity].
Qed.
