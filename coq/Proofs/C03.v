(* Proofs/C03.v — the copy monitor: children first, tag last, prefix-closed completeness *)
From Coq Require Import List Arith Bool Lia.
From Verif Require Import Model.C03_Copy.
Import ListNotations.

(* ---------- the wait loops ---------- *)
Lemma collect_some e rs : collect (Some e) rs <> None.
Proof.
  revert e; induction rs as [|r rs IH]; intro e; cbn; [discriminate|].
  destruct r as [e'|]; [destruct (is_canceled e)|]; apply IH.
Qed.
Lemma collect_sound rs : collect None rs = None -> Forall (fun r => r = None) rs.
Proof.
  induction rs as [|r rs IH]; cbn; intro H; [constructor|].
  destruct r as [e|]; [exfalso; eapply collect_some; exact H|]. constructor; [reflexivity|now apply IH].
Qed.
Lemma collect_old_refuted : exists rs, collect_old None rs = None /\ ~ Forall (fun r => r = None) rs.
Proof. exists [Some ECanceled; None]. split; [reflexivity|]. intro H. inversion H. discriminate. Qed.

Lemma memd_In d l : memd d l = true <-> In d l.
Proof.
  unfold memd. rewrite existsb_exists. split; [intros (x & Hx & E); apply Nat.eqb_eq in E; now subst|].
  intro H. exists d. split; [exact H|apply Nat.eqb_refl].
Qed.
Lemma res_eqb_eq a b : res_eqb a b = true -> a = b.
Proof. destruct a as [[|]|], b as [[|]|]; cbn; congruence. Qed.
Lemma mem_ret_In c r l : mem_ret c r l = true -> In (c, r) l.
Proof.
  unfold mem_ret. rewrite existsb_exists. intros ([c' r'] & Hx & E). cbn in E. apply andb_prop in E as [E1 E2].
  apply Nat.eqb_eq in E1. apply res_eqb_eq in E2. now subst.
Qed.

Section M.
  Variable refs : dg -> list dg.
  Notation mstep := (mstep refs).
  Notation mrun := (mrun refs).
  Notation closed := (closed refs).

  Definition J (s : mst) : Prop :=
    closed (present s) /\ (forall c, In (c, None) (rets s) -> In c (present s)).

  Lemma waited_children s d w : J s -> waited_ok refs s d w = true -> forall c, In c (refs d) -> In c (present s).
  Proof.
    intros [_ Hr] H c Hc. unfold waited_ok in H. apply andb_prop in H as [H H3]. apply andb_prop in H as [H1 H2].
    rewrite forallb_forall in H1, H2.
    specialize (H1 c Hc). apply memd_In in H1. apply in_map_iff in H1 as ([c' r] & E & Hin). cbn in E. subst c'.
    assert (Hn : Forall (fun r => r = None) (map snd w)).
    { apply collect_sound. destruct (collect None (map snd w)); [discriminate|reflexivity]. }
    rewrite Forall_forall in Hn. assert (r = None) by (apply Hn; apply in_map_iff; exists (c, r); auto). subst r.
    apply Hr. apply mem_ret_In. exact (H2 (c, None) Hin).
  Qed.

  Lemma closed_cons p d : closed p -> (forall c, In c (refs d) -> In c p) -> closed (d :: p).
  Proof. intros Hc Hd x [<-|Hx] c Hcx; [right; now apply Hd|right; eapply Hc; eauto]. Qed.

  Lemma mstep_J s e s' : J s -> mstep s e = Some s' -> J s' /\ (forall x, In x (present s) -> In x (present s')).
  Proof.
    intros HJ. pose proof HJ as [Hc Hr]. destruct e as [d|c r|d w|d w|]; cbn [C03_Copy.mstep].
    - destruct (refs d) eqn:Er; cbn [andb]; [|discriminate]. destruct (negb (tagged s) || final s); [|discriminate].
      intro H; injection H as <-. cbn. split; [split|]; [apply closed_cons; [exact Hc|rewrite Er; intros c []]|intros c Hin; right; now apply Hr|intros; now right].
    - destruct r as [e|].
      + intro H; injection H as <-. cbn. split; [split; [exact Hc|]|auto]. intros c0 [E|Hin]; [discriminate|now apply Hr].
      + destruct (memd c (present s)) eqn:Em; [|discriminate]. intro H; injection H as <-. cbn. split; [split; [exact Hc|]|auto].
        intros c0 [E|Hin]; [injection E as <-; now apply memd_In|now apply Hr].
    - destruct (waited_ok refs s d w) eqn:Ew; cbn [andb]; [|discriminate]. destruct (negb (tagged s) || final s); [|discriminate].
      intro H; injection H as <-. cbn. split; [split|]; [apply closed_cons; [exact Hc|now apply (waited_children s d w)]|intros c Hin; right; now apply Hr|intros; now right].
    - destruct (waited_ok refs s d w) eqn:Ew; cbn [andb]; [|discriminate]. destruct (negb (tagged s)); [|discriminate].
      intro H; injection H as <-. cbn. split; [split|]; [apply closed_cons; [exact Hc|now apply (waited_children s d w)]|intros c Hin; right; now apply Hr|intros; now right].
    - intro H; injection H as <-. cbn. split; [exact HJ|auto].
  Qed.

  Lemma mrun_J : forall t s s', J s -> mrun s t = Some s' -> J s'.
  Proof.
    induction t as [|e t IH]; intros s s' HJ; cbn; [intro H; now injection H as <-|].
    destruct (mstep s e) as [s1|] eqn:E; [|discriminate]. apply IH. now destruct (mstep_J _ _ _ HJ E).
  Qed.

  Lemma mrun_app : forall t1 t2 s s', mrun s (t1 ++ t2) = Some s' -> exists s1, mrun s t1 = Some s1 /\ mrun s1 t2 = Some s'.
  Proof.
    induction t1 as [|e t1 IH]; intros t2 s s'; cbn; [intro H; now exists s|].
    destruct (mstep s e) as [s1|]; [apply IH|discriminate].
  Qed.

  Lemma init_J tgt0 tag0 : closed tgt0 -> J (minit tgt0 tag0).
  Proof. intro H. split; [exact H|intros c []]. Qed.

  (* children first: when a manifest is written everything it names is already at the target *)
  Lemma children_first tgt0 tag0 t1 d w t2 s' : closed tgt0 ->
    (mrun (minit tgt0 tag0) (t1 ++ EPut d w :: t2) = Some s' \/ mrun (minit tgt0 tag0) (t1 ++ ETag d w :: t2) = Some s') ->
    exists s, mrun (minit tgt0 tag0) t1 = Some s /\ forall c, In c (refs d) -> In c (present s).
  Proof.
    intros Hc [H|H]; apply mrun_app in H as (s1 & H1 & H2); exists s1; (split; [exact H1|]);
      pose proof (mrun_J _ _ _ (init_J tgt0 tag0 Hc) H1) as HJ; cbn in H2.
    - destruct (waited_ok refs s1 d w) eqn:Ew; [|discriminate]. now apply (waited_children s1 d w).
    - destruct (waited_ok refs s1 d w) eqn:Ew; [|discriminate]. now apply (waited_children s1 d w).
  Qed.

  (* whatever prefix of the copy has happened (process death, cancellation, fault), the target holds only
     complete images *)
  Lemma prefix_closed tgt0 tag0 t1 t2 s' : closed tgt0 -> mrun (minit tgt0 tag0) (t1 ++ t2) = Some s' ->
    exists s, mrun (minit tgt0 tag0) t1 = Some s /\ closed (present s).
  Proof.
    intros Hc H. apply mrun_app in H as (s1 & H1 & _). exists s1. split; [exact H1|].
    now destruct (mrun_J _ _ _ (init_J tgt0 tag0 Hc) H1).
  Qed.

  Definition is_write (e : ev) : bool := match e with EBlob _ | EPut _ _ | ETag _ _ => true | _ => false end.
  Definition is_tag (e : ev) : bool := match e with ETag _ _ => true | _ => false end.
  Definition is_final (e : ev) : bool := match e with EFinal => true | _ => false end.

  Lemma mstep_frame s e s' : mstep s e = Some s' ->
    (is_final e = false -> final s' = final s) /\ (is_tag e = false -> tag s' = tag s /\ tagged s' = tagged s).
  Proof.
    destruct e as [d|c r|d w|d w|]; cbn [C03_Copy.mstep is_final is_tag].
    - destruct (_ && _); [|discriminate]. intro H; injection H as <-. cbn. auto.
    - destruct r as [e|]; [|destruct (memd c (present s)); [|discriminate]]; intro H; injection H as <-; cbn; auto.
    - destruct (_ && _); [|discriminate]. intro H; injection H as <-. cbn. auto.
    - destruct (_ && _); [|discriminate]. intro H; injection H as <-. cbn. split; [auto|discriminate].
    - intro H; injection H as <-. cbn. split; [discriminate|auto].
  Qed.

  Lemma no_write_after_tag : forall t s s', tagged s = true -> final s = false -> existsb is_final t = false ->
    mrun s t = Some s' -> existsb is_write t = false.
  Proof.
    induction t as [|e t IH]; intros s s' Ht Hf Hnf; cbn; [reflexivity|].
    cbn in Hnf. apply orb_false_iff in Hnf as [He Hnf].
    destruct e as [d|c r|d w|d w|]; cbn [C03_Copy.mstep is_write orb]; try discriminate He.
    - rewrite Ht, Hf. cbn. rewrite andb_false_r. discriminate.
    - destruct r as [e|]; [|destruct (memd c (present s)); [|discriminate]]; apply IH; cbn; auto.
    - rewrite Ht, Hf. cbn. rewrite andb_false_r. discriminate.
    - rewrite Ht. cbn. rewrite andb_false_r. discriminate.
  Qed.

  (* the tag is written last *)
  Lemma tag_last tgt0 tag0 t1 d w t2 s' : mrun (minit tgt0 tag0) (t1 ++ ETag d w :: t2) = Some s' ->
    existsb is_final (t1 ++ t2) = false -> existsb is_write t2 = false.
  Proof.
    intros H Hnf. apply mrun_app in H as (s1 & H1 & H2). cbn in H2.
    destruct (waited_ok refs s1 d w && negb (tagged s1)) eqn:E; [|discriminate].
    rewrite existsb_app in Hnf. apply orb_false_iff in Hnf as [Hn1 Hn2].
    assert (Hfin : forall t s s', final s = false -> existsb is_final t = false -> mrun s t = Some s' -> final s' = false).
    { induction t as [|e t IH]; intros s s2 Hf Hn; cbn; [intro X; now injection X as <-|].
      cbn in Hn. apply orb_false_iff in Hn as [He Hn]. destruct (mstep s e) as [s3|] eqn:Es; [|discriminate]. apply IH; [|exact Hn].
      destruct (mstep_frame _ _ _ Es) as [Hfr _]. now rewrite (Hfr He). }
    eapply no_write_after_tag; [| |exact Hn2|exact H2]; cbn; [reflexivity|].
    eapply Hfin; [|exact Hn1|exact H1]. reflexivity.
  Qed.

  (* a copy that never reaches the tag write leaves the tag alone *)
  Lemma fail_keeps_tag : forall t s s', existsb is_tag t = false -> mrun s t = Some s' -> tag s' = tag s.
  Proof.
    induction t as [|e t IH]; intros s s' Hn; cbn; [intro H; now injection H as <-|].
    cbn in Hn. apply orb_false_iff in Hn as [He Hn]. destruct (mstep s e) as [s1|] eqn:Es; [|discriminate].
    intro H. rewrite (IH _ _ Hn H). destruct (mstep_frame _ _ _ Es) as [_ Hfr]. now destruct (Hfr He).
  Qed.

  (* success: the whole graph below the root is at the target *)
  Lemma reach_present p : closed p -> forall n d, In d p -> forall x, In x (reach refs n d) -> In x p.
  Proof.
    intros Hc. induction n as [|n IH]; intros d Hd x; cbn; [intros [<-|[]]; exact Hd|].
    intros [<-|Hx]; [exact Hd|]. apply in_flat_map in Hx as (c & Hcd & Hx). eapply IH; [eapply Hc; eauto|exact Hx].
  Qed.
  Lemma complete tgt0 tag0 t s root : closed tgt0 -> mrun (minit tgt0 tag0) t = Some s -> In (root, None) (rets s) ->
    forall n x, In x (reach refs n root) -> In x (present s).
  Proof.
    intros Hc H Hr n x Hx. destruct (mrun_J _ _ _ (init_J tgt0 tag0 Hc) H) as [Hcl Hrt].
    eapply reach_present; [exact Hcl|apply Hrt; exact Hr|exact Hx].
  Qed.
End M.

(* ---------- BlobCopy ---------- *)
Definition has (a : bact) (l : list bact) : bool :=
  existsb (fun x => match a, x with AHeadTgt, AHeadTgt | AMount, AMount | AGetSrc, AGetSrc | AUpload, AUpload => true | _, _ => false end) l.
Lemma blob_copy_minimal sr ex sg mg inl :
  (ex = true -> has AGetSrc (blob_copy sr ex sg mg inl) = false /\ has AUpload (blob_copy sr ex sg mg inl) = false) /\
  (sr = true -> blob_copy sr ex sg mg inl = []) /\
  (sg = true -> mg = true -> has AGetSrc (blob_copy sr ex sg mg inl) = false /\ has AUpload (blob_copy sr ex sg mg inl) = false).
Proof. destruct sr, ex, sg, mg, inl; cbn; repeat split; intros; try reflexivity; try discriminate. Qed.

(* ---------- seen map: a key has at most one owner over a failure-free run ---------- *)
Definition all_ok (t : list sev) : bool := forallb (fun e => match e with SDone _ ok => ok | _ => true end) t.
Lemma memd_filter k k' l : memd k (filter (fun x => negb (Nat.eqb x k')) l) = memd k l && negb (Nat.eqb k k').
Proof.
  unfold memd. induction l as [|x l IH]; [reflexivity|]. cbn [filter existsb].
  destruct (Nat.eqb_spec x k') as [->|Hn]; cbn [negb existsb].
  - rewrite IH. destruct (Nat.eqb_spec k k'); cbn; [now rewrite andb_false_r|reflexivity].
  - rewrite IH. destruct (Nat.eqb_spec k x) as [->|]; cbn; [|reflexivity]. destruct (Nat.eqb_spec x k'); [congruence|reflexivity].
Qed.

Lemma owner_count_zero : forall t s k, all_ok t = true -> memd k (owners s) || memd k (finished s) = true -> owner_count k s t = 0.
Proof.
  induction t as [|e t IH]; intros s k Hok Hk; [reflexivity|]. cbn [owner_count all_ok forallb] in *.
  apply andb_prop in Hok as [He Hok]. destruct e as [k'|k' ok]; cbn [sstep].
  - destruct (memd k' (finished s)) eqn:Ef; [cbn; now apply IH|].
    destruct (memd k' (owners s)) eqn:Eo; [cbn; now apply IH|].
    assert (Hne : Nat.eqb k k' = false).
    { destruct (Nat.eqb_spec k k') as [->|]; [|reflexivity]. rewrite Eo, Ef in Hk. discriminate. }
    rewrite Hne. cbn. apply IH; [exact Hok|]. cbn. rewrite Hne. exact Hk.
  - subst ok. cbn [fst snd]. apply IH; [exact Hok|]. cbn [owners finished]. rewrite memd_filter. cbn [memd existsb].
    destruct (Nat.eqb_spec k k') as [->|Hn]; cbn; [now rewrite orb_true_r|].
    rewrite andb_true_r. destruct (memd k (owners s)); cbn in *; [reflexivity|exact Hk].
Qed.

(* over a run without failed copies each key (target repository x digest) is copied by at most one task *)
Lemma owner_count_le1 : forall t s k, all_ok t = true -> owner_count k s t <= 1.
Proof.
  induction t as [|e t IH]; intros s k Hok; [cbn; lia|]. cbn [owner_count all_ok forallb] in *.
  apply andb_prop in Hok as [He Hok]. destruct e as [k'|k' ok]; cbn [sstep].
  - destruct (memd k' (finished s)) eqn:Ef; [cbn; now apply IH|].
    destruct (memd k' (owners s)) eqn:Eo; [cbn; now apply IH|].
    destruct (Nat.eqb_spec k k') as [->|Hn]; [|cbn; now apply IH].
    rewrite owner_count_zero; [lia|exact Hok|]. cbn. now rewrite Nat.eqb_refl.
  - subst ok. cbn. now apply IH.
Qed.
