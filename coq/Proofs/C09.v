(* Proofs/C09.v — export walk: every digest once, closed under the edges it follows; deferred pushes: children first;
   the read phase never pushes a manifest *)
From Coq Require Import List Arith Bool Lia.
From Verif Require Import Model.C09_Import.
Import ListNotations.

Lemma memn_In x l : memn x l = true <-> In x l.
Proof. unfold memn. rewrite existsb_exists. split; [intros (y & Hy & E); apply Nat.eqb_eq in E; now subst|intro H; exists x; split; [exact H|apply Nat.eqb_refl]]. Qed.
Lemma memn_false x l : memn x l = false <-> ~ In x l.
Proof. rewrite <- memn_In. destruct (memn x l); split; congruence. Qed.

Lemma fold_left_map' {A B C} (f : A -> B -> A) (g : C -> B) l a : fold_left f (map g l) a = fold_left (fun a x => f a (g x)) l a.
Proof. revert a; induction l as [|x l IH]; intro a; cbn; [reflexivity|apply IH]. Qed.

(* ---------- export ---------- *)
Definition xdig (x : xdesc) : nat := match x with XMan d | XBlob d => d end.
Definition xof (p : nat * cls) : xdesc := match snd p with KMan => XMan (fst p) | _ => XBlob (fst p) end.
(* the descriptors the export follows below a digest written as a manifest *)
Definition xkids (content : nat -> node) (d : nat) : list xdesc :=
  match content d with
  | NIndex ch => map xof ch
  | NImage cfg layers => (match cfg with Some c => [XBlob c] | None => [] end) ++ map XBlob layers
  | NBlob => []
  end.
Definition followed (content : nat -> node) (x : xdesc) : list xdesc := match x with XMan d => xkids content d | XBlob _ => [] end.

Lemma export_unfold_man f content w d : export (S f) content w (XMan d) =
  if memn d w then w else fold_left (fun w' k => export f content w' k) (xkids content d) (w ++ [d]).
Proof.
  cbn [export]. destruct (memn d w); [reflexivity|]. unfold xkids. destruct (content d) as [ch|cfg layers|].
  - rewrite fold_left_map'. reflexivity.
  - rewrite fold_left_app, fold_left_map'. destruct cfg; reflexivity.
  - reflexivity.
Qed.

Lemma export_incl : forall f content w x d, In d w -> In d (export f content w x).
Proof.
  induction f as [|f IH]; intros content w x d Hd; [exact Hd|].
  destruct x as [m|b].
  - rewrite export_unfold_man. destruct (memn m w); [exact Hd|].
    assert (H : forall ks w0, In d w0 -> In d (fold_left (fun w' k => export f content w' k) ks w0)).
    { induction ks as [|k ks IHk]; intros w0 H0; cbn; [exact H0|]. apply IHk. now apply IH. }
    apply H. apply in_or_app. now left.
  - cbn [export]. destruct (memn b w); [exact Hd|]. apply in_or_app. now left.
Qed.

Lemma export_nodup : forall f content w x, NoDup w -> NoDup (export f content w x).
Proof.
  induction f as [|f IH]; intros content w x Hn; [exact Hn|].
  assert (Happ : forall d, memn d w = false -> NoDup (w ++ [d])).
  { intros d Hm. apply memn_false in Hm.
    clear IH. induction w as [|y w IHw]; cbn; [constructor; [intros []|constructor]|].
    inversion Hn; subst. constructor; [|apply IHw; [assumption|intro; apply Hm; now right]].
    intro Hi. apply in_app_or in Hi as [Hi|[->|[]]]; [contradiction|apply Hm; now left]. }
  destruct x as [m|b].
  - rewrite export_unfold_man. destruct (memn m w) eqn:Em; [exact Hn|].
    assert (H : forall ks w0, NoDup w0 -> NoDup (fold_left (fun w' k => export f content w' k) ks w0)).
    { induction ks as [|k ks IHk]; intros w0 H0; cbn; [exact H0|]. apply IHk. now apply IH. }
    apply H. now apply Happ.
  - cbn [export]. destruct (memn b w) eqn:Em; [exact Hn|now apply Happ].
Qed.

(* the walk is closed: whatever it adds has all the descriptors it follows added too *)
Section ExportClosed.
  Variable content : nat -> node.
  Variable rank : nat -> nat.
  Hypothesis rank_dec : forall d k, In k (xkids content d) -> rank (xdig k) < rank d.

  Definition closed_new (w w' : list nat) : Prop :=
    forall d, In d w' -> ~ In d w -> forall k, In k (xkids content d) -> In (xdig k) w'.
  (* a digest referenced as a plain blob has nothing below it *)
  Definition blob_typed (x : xdesc) : Prop := match x with XBlob d => xkids content d = [] | XMan _ => True end.
  Definition well_typed : Prop := forall d k, In k (xkids content d) -> blob_typed k.

  Lemma export_closed : well_typed -> forall f w x, rank (xdig x) < f -> blob_typed x ->
    In (xdig x) (export f content w x) /\ closed_new w (export f content w x).
  Proof.
    intro Hwt. induction f as [|f IH]; intros w x Hr Hbt; [lia|].
    destruct x as [m|b].
    - rewrite export_unfold_man. cbn [xdig] in *. destruct (memn m w) eqn:Em.
      + split; [now apply memn_In|]. intros d Hd Hnd. contradiction.
      + apply memn_false in Em.
        assert (H : forall ks w0, (forall k, In k ks -> rank (xdig k) < f /\ blob_typed k) ->
                   let w1 := fold_left (fun w' k => export f content w' k) ks w0 in
                   (forall k, In k ks -> In (xdig k) w1) /\ closed_new w0 w1 /\ incl w0 w1).
        { induction ks as [|k ks IHk]; intros w0 Hks; cbn.
          - split; [intros k []|]. split; [intros d Hd Hnd; contradiction|intros d Hd; exact Hd].
          - destruct (IH w0 k) as [Hk Hc]; [apply Hks; now left|apply Hks; now left|].
            destruct (IHk (export f content w0 k)) as (Ha & Hb & Hi); [intros k' Hk'; apply Hks; now right|].
            split; [intros k' [<-|Hk']; [apply Hi; exact Hk|now apply Ha]|].
            split; [|intros d Hd; apply Hi; now apply export_incl].
            intros d Hd Hnd k' Hk'.
            destruct (in_dec Nat.eq_dec d (export f content w0 k)) as [Hin|Hnin].
            + apply Hi. eapply Hc; eauto.
            + eapply Hb; eauto. }
        destruct (H (xkids content m) (w ++ [m])) as (Ha & Hb & Hi).
        { intros k Hk. split; [specialize (rank_dec m k Hk); lia|now apply (Hwt m)]. }
        split; [apply Hi; apply in_or_app; right; now left|].
        intros d Hd Hnd k Hk.
        destruct (Nat.eq_dec d m) as [->|Hne]; [now apply Ha|].
        eapply Hb; eauto. intro Hin. apply in_app_or in Hin as [Hin|[E|[]]]; [contradiction|congruence].
    - cbn [export xdig] in *. destruct (memn b w) eqn:Em.
      + split; [now apply memn_In|]. intros d Hd Hnd. contradiction.
      + apply memn_false in Em. split; [apply in_or_app; right; now left|].
        intros d Hd Hnd k Hk. apply in_app_or in Hd as [Hd|[<-|[]]]; [contradiction|].
        cbn in Hbt. rewrite Hbt in Hk. destruct Hk.
  Qed.

  (* everything the image reaches *)
  Inductive XReach (root : nat) : nat -> Prop :=
  | XR_root : XReach root root
  | XR_step d k : XReach root d -> In k (xkids content d) -> XReach root (xdig k).

  Lemma export_complete root f : well_typed -> rank root < f -> forall d, XReach root d -> In d (export f content [] (XMan root)).
  Proof.
    intros Hwt Hr. destruct (export_closed Hwt f [] (XMan root) Hr I) as [Hin Hc].
    induction 1 as [|d k HR IH Hk]; [exact Hin|]. eapply Hc; eauto.
  Qed.
End ExportClosed.

(* ---------- the deferred pushes: children first ---------- *)
Definition kids_reg (a : arch) (reg : list nat) (d : nat) : list nat :=
  match content a d with NIndex ch => filter (fun c => memn c reg) (map fst ch) | _ => [] end.
Definition after1 (P : list nat) (e : ev) : list nat := match e with EvPut p | EvTag p => p :: P | _ => P end.
Definition after (P : list nat) (o : list ev) : list nat := fold_left after1 o P.
(* every pushed manifest list finds its registered children at the target *)
Fixpoint ord (a : arch) (reg : list nat) (P : list nat) (o : list ev) : bool :=
  match o with
  | [] => true
  | e :: r => match e with EvPut p => forallb (fun c => memn c P) (kids_reg a reg p) | _ => true end && ord a reg (after1 P e) r
  end.
Lemma ord_app a reg : forall o1 o2 P, ord a reg P (o1 ++ o2) = ord a reg P o1 && ord a reg (after P o1) o2.
Proof. induction o1 as [|e o1 IH]; intros o2 P; cbn; [reflexivity|]. rewrite IH, andb_assoc. reflexivity. Qed.
Lemma after_app P o1 o2 : after P (o1 ++ o2) = after (after P o1) o2.
Proof. unfold after. apply fold_left_app. Qed.

Section PushOrder.
  Variable a : arch.
  Variable reg : list nat.
  Variable rank : nat -> nat.
  Hypothesis rank_dec : forall d ch c, content a d = NIndex ch -> In c (map fst ch) -> rank c < rank d.
  Variable s0 : st.

  Definition FInv (s : st) (done stk : list nat) : Prop :=
    exists o, out s = out s0 ++ o /\ ord a reg (mpresent s0) o = true /\ mpresent s = after (mpresent s0) o /\
              (forall x, In x done -> In x (mpresent s) \/ In x stk) /\ mans s = mans s0.

  Lemma put_man_pop s done stk d :
    FInv s done (d :: stk) -> (forall c, In c (kids_reg a reg d) -> In c (mpresent s)) ->
    FInv (put_man d s) done stk /\ In d (mpresent (put_man d s)) /\ incl (mpresent s) (mpresent (put_man d s)).
  Proof.
    intros (o & Ho & Hord & Hmp & Hd & Hm) Hk. unfold put_man. destruct (memn d (mpresent s)) eqn:Em.
    - apply memn_In in Em. split; [|split; [exact Em|intros x Hx; exact Hx]].
      exists o. repeat split; auto. intros x Hx. destruct (Hd x Hx) as [H|[<-|H]]; auto.
    - cbn [mpresent out mans]. split; [|split; [now left|intros x Hx; now right]].
      exists (o ++ [EvPut d]). split; [rewrite Ho, app_assoc; reflexivity|].
      split; [rewrite ord_app, Hord; cbn; rewrite andb_true_r; apply forallb_forall; intros c Hc; apply memn_In; rewrite <- Hmp; now apply Hk|].
      split; [rewrite after_app, <- Hmp; reflexivity|]. split; [|exact Hm].
      intros x Hx. destruct (Hd x Hx) as [H|[<-|H]]; [left; now right|left; now left|now right].
  Qed.

  Lemma fpush_inv : forall fuel d s done stk, rank d < fuel -> (forall x, In x stk -> rank d < rank x) -> FInv s done stk ->
    let r := fpush fuel a reg d (s, done) in
    FInv (fst r) (snd r) stk /\ In d (mpresent (fst r)) /\ incl (mpresent s) (mpresent (fst r)) /\ incl done (snd r).
  Proof.
    induction fuel as [|f IH]; intros d s done stk Hr Hstk HI; [lia|]. cbn [fpush fst snd].
    destruct (memn d done) eqn:Ed.
    - cbn [fst snd]. split; [exact HI|]. split; [|split; intros x Hx; exact Hx].
      destruct HI as (o & _ & _ & _ & Hd & _). apply memn_In in Ed. destruct (Hd d Ed) as [H|H]; [exact H|]. specialize (Hstk d H). lia.
    - set (step := fun (acc : st * list nat) (p : nat * cls) => if memn (fst p) reg then fpush f a reg (fst p) acc else acc).
      assert (HI1 : FInv s (d :: done) (d :: stk)).
      { destruct HI as (o & Ho & Hord & Hmp & Hd & Hm). exists o. repeat split; auto. intros x [<-|Hx]; [right; now left|]. destruct (Hd x Hx); [now left|right; now right]. }
      assert (Hfold : forall ch sd, (forall c, In c (map fst ch) -> rank c < rank d) -> FInv (fst sd) (snd sd) (d :: stk) ->
                let r := fold_left step ch sd in
                FInv (fst r) (snd r) (d :: stk) /\ incl (mpresent (fst sd)) (mpresent (fst r)) /\ incl (snd sd) (snd r) /\
                (forall c, In c (filter (fun c => memn c reg) (map fst ch)) -> In c (mpresent (fst r)))).
      { induction ch as [|p ch IHch]; intros sd Hrk HIsd; cbn [fold_left].
        - split; [exact HIsd|]. split; [intros x Hx; exact Hx|]. split; [intros x Hx; exact Hx|intros c []].
        - assert (Hp : rank (fst p) < rank d) by (apply Hrk; now left).
          assert (Hstep : FInv (fst (step sd p)) (snd (step sd p)) (d :: stk) /\ incl (mpresent (fst sd)) (mpresent (fst (step sd p))) /\
                          incl (snd sd) (snd (step sd p)) /\ (memn (fst p) reg = true -> In (fst p) (mpresent (fst (step sd p))))).
          { unfold step. destruct (memn (fst p) reg) eqn:Er.
            - destruct sd as [s1 d1]. destruct (IH (fst p) s1 d1 (d :: stk)) as (H1 & H2 & H3 & H4); [lia|intros x [<-|Hx]; [exact Hp|specialize (Hstk x Hx); lia]|exact HIsd|].
              auto.
            - split; [exact HIsd|]. split; [intros x Hx; exact Hx|]. split; [intros x Hx; exact Hx|discriminate]. }
          destruct Hstep as (S1 & S2 & S3 & S4).
          destruct (IHch (step sd p)) as (R1 & R2 & R3 & R4); [intros c Hc; apply Hrk; now right|exact S1|].
          split; [exact R1|]. split; [intros x Hx; apply R2, S2, Hx|]. split; [intros x Hx; apply R3, S3, Hx|].
          intros c Hc. cbn [map filter] in Hc. destruct (memn (fst p) reg) eqn:Er; [destruct Hc as [<-|Hc]; [apply R2, S4; reflexivity|now apply R4]|now apply R4]. }
      assert (Hkr : forall ch, content a d = NIndex ch -> kids_reg a reg d = filter (fun c => memn c reg) (map fst ch)) by (intros ch E; unfold kids_reg; now rewrite E).
      assert (Hk0 : (forall ch, content a d <> NIndex ch) -> kids_reg a reg d = []) by (intro H; unfold kids_reg; destruct (content a d); [exfalso; eapply H; eauto|reflexivity|reflexivity]).
      destruct (content a d) as [ch|cfg layers|] eqn:Ec.
      + destruct (Hfold ch (s, d :: done)) as (R1 & R2 & R3 & R4); [intros c Hc; eapply rank_dec; eauto|exact HI1|].
        fold step. set (r := fold_left step ch (s, d :: done)) in *. cbn [fst snd] in *.
        destruct (put_man_pop (fst r) (snd r) stk d R1) as (P1 & P2 & P3); [rewrite (Hkr ch eq_refl); exact R4|].
        split; [exact P1|]. split; [exact P2|]. split; [intros x Hx; apply P3, R2, Hx|intros x Hx; apply R3; now right].
      + cbn [fst snd]. destruct (put_man_pop s (d :: done) stk d HI1) as (P1 & P2 & P3); [rewrite Hk0 by discriminate; intros c []|].
        split; [exact P1|]. split; [exact P2|]. split; [exact P3|intros x Hx; now right].
      + cbn [fst snd]. destruct (put_man_pop s (d :: done) stk d HI1) as (P1 & P2 & P3); [rewrite Hk0 by discriminate; intros c []|].
        split; [exact P1|]. split; [exact P2|]. split; [exact P3|intros x Hx; now right].
  Qed.
End PushOrder.

Section PushOrder2.
  Variable a : arch.
  Variable rank : nat -> nat.
  Hypothesis rank_dec : forall d ch c, content a d = NIndex ch -> In c (map fst ch) -> rank c < rank d.

  Lemma run_fins_from_ord reg s0 fuel : forall l sd, (forall d, In d (registered l) -> rank d < fuel) ->
    FInv a reg s0 (fst sd) (snd sd) [] -> forall s', run_fins_from fuel a reg l sd = inl s' -> exists done, FInv a reg s0 s' done [].
  Proof.
    induction l as [|[d|d ch] l IH]; intros sd Hr HI s' Hs; cbn [run_fins_from] in Hs.
    - inversion Hs; subst. exists (snd sd). exact HI.
    - destruct (memn d (mans (fst sd))) eqn:Em; [|discriminate].
      eapply IH; [intros x Hx; apply Hr; exact Hx| |exact Hs]. cbn [fst snd].
      destruct HI as (o & Ho & Hord & Hmp & Hd & Hm). exists (o ++ [EvTag d]). cbn [out mpresent mans].
      split; [rewrite Ho, app_assoc; reflexivity|]. split; [rewrite ord_app, Hord; reflexivity|].
      split; [rewrite after_app, <- Hmp; reflexivity|]. split; [|exact Hm].
      intros x Hx. destruct (Hd x Hx) as [H|[]]. left. now right.
    - destruct sd as [s1 d1]. cbn [fst snd] in HI.
      destruct (fpush_inv a reg rank rank_dec s0 fuel d s1 d1 []) as (H1 & _ & _ & _); [apply Hr; cbn; now left|intros x []|exact HI|].
      eapply IH; [intros x Hx; apply Hr; cbn; now right|exact H1|exact Hs].
  Qed.

  Theorem push_children_first fuel l s s' : (forall d, In d (registered l) -> rank d < fuel) ->
    run_fins fuel a l s = inl s' -> exists o, out s' = out s ++ o /\ ord a (registered l) (mpresent s) o = true.
  Proof.
    intros Hr Hs. unfold run_fins in Hs.
    assert (H0 : FInv a (registered l) s (fst (s, @nil nat)) (snd (s, @nil nat)) []).
    { exists []. cbn. rewrite app_nil_r. repeat split; auto. }
    destruct (run_fins_from_ord (registered l) s fuel l (s, []) Hr H0 s' Hs) as (done & o & Ho & Hord & _). eauto.
  Qed.
End PushOrder2.

(* ---------- the read phase pushes no manifest and sets no tag ---------- *)
Definition blob_ev (e : ev) : Prop := match e with EvPut _ | EvTag _ | EvDMan _ _ => False | _ => True end.
Definition ext (s s' : st) : Prop := exists l, out s' = out s ++ l /\ Forall blob_ev l.
Lemma ext_refl s : ext s s. Proof. exists []. now rewrite app_nil_r. Qed.
Lemma ext_trans s1 s2 s3 : ext s1 s2 -> ext s2 s3 -> ext s1 s3.
Proof. intros (l1 & H1 & F1) (l2 & H2 & F2). exists (l1 ++ l2). rewrite H2, H1, app_assoc. split; [reflexivity|]. apply Forall_app; auto. Qed.
Lemma ext_same s s' : out s' = out s -> ext s s'. Proof. intro H. exists []. now rewrite app_nil_r. Qed.
Lemma ext_one s s' e : out s' = out s ++ [e] -> blob_ev e -> ext s s'. Proof. intros H He. exists [e]. split; [exact H|]. now constructor. Qed.

Lemma add_h_out s n v : out (add_h s n v) = out s.
Proof. unfold add_h. destruct (_ || _); reflexivity. Qed.
Lemma handle_man_out a s d child : out (handle_man a s d child) = out s.
Proof.
  unfold handle_man. cbn [out].
  assert (F1 : forall ch s0, out (fold_left (fun s' (p : nat * cls) => add_h s' (fst p) (HMan (snd p) true (fst p))) ch s0) = out s0)
    by (induction ch as [|p ch IH]; intro s0; cbn; [reflexivity|now rewrite IH, add_h_out]).
  assert (F2 : forall ls s0, out (fold_left (fun s'' l => add_h s'' l (HBlob l)) ls s0) = out s0)
    by (induction ls as [|p ls IH]; intro s0; cbn; [reflexivity|now rewrite IH, add_h_out]).
  destruct (content a d) as [ch|cfg layers|]; [apply F1| |reflexivity].
  rewrite F2. destruct cfg; [apply add_h_out|reflexivity].
Qed.
Lemma import_blob_ext a s d c dr s' : import_blob a s d c dr = inl s' -> ext s s'.
Proof.
  unfold import_blob. destruct (memn d (bpresent s)); [intro H; inversion H; apply ext_refl|].
  destruct (if dr then _ else _); [|discriminate]. intro H; inversion H. eapply ext_one; [reflexivity|exact I].
Qed.
Lemma oci_handler_ext a q s s' : oci_handler a q s = inl s' -> ext s s'.
Proof.
  unfold oci_handler. match goal with |- context [match ?p with Some _ => _ | None => _ end] => destruct p as [[d k]|] end; [|discriminate].
  intro H; inversion H. apply ext_same. cbn [out]. now rewrite add_h_out.
Qed.
Lemma run_h_ext dr a q s h c s' : run_h_gen dr a q s h c = inl s' -> ext s s'.
Proof.
  destruct h as [| | |k child d|d| |ps]; cbn [run_h_gen].
  - destruct (layout_ok a); [|intro H; inversion H; apply ext_refl].
    destruct (foundI s); [intro H; apply oci_handler_ext in H; exact H|intro H; inversion H; now apply ext_same].
  - destruct (foundL s); [intro H; apply oci_handler_ext in H; exact H|intro H; inversion H; now apply ext_same].
  - intro H; inversion H. now apply ext_same.
  - destruct k; try (apply import_blob_ext).
    + destruct (_ && _); [|discriminate]. intro H; inversion H. apply ext_same, handle_man_out.
    + destruct (_ && _); [intro H; inversion H; apply ext_same, handle_man_out|apply import_blob_ext].
  - apply import_blob_ext.
  - intro H; inversion H. eapply ext_one; [reflexivity|exact I].
  - intro H; inversion H. eapply ext_one; [reflexivity|exact I].
Qed.

Definition pres_ext (s : st) (r : pres) : Prop := match r with PCont s' | PDone s' => ext s s' | PErr _ => True end.
Lemma run_list_ext a q : forall names s c used, pres_ext s (run_list a q s names c used).
Proof.
  induction names as [|n names IH]; intros s c used; cbn [run_list]; [apply ext_refl|].
  destruct (hget n (hs s)) as [h|]; [|apply IH].
  destruct used; [now apply ext_same|].
  destruct (run_h a q s h c) as [s1|e] eqn:Eh; [|exact I].
  apply run_h_ext in Eh.
  match goal with |- context [match hs ?x with [] => _ | _ => _ end] => set (s2 := x) end.
  assert (E2 : ext s s2) by (eapply ext_trans; [exact Eh|now apply ext_same]).
  destruct (hs s2); [exact E2|].
  specialize (IH s2 c true). destruct (run_list a q s2 names c true); cbn in *; try exact I; eapply ext_trans; eauto.
Qed.
Lemma pass_ext a q : forall es s, pres_ext s (pass a q s es).
Proof.
  induction es as [|[n c|n t] es IH]; intro s; cbn [pass]; [apply ext_refl| |].
  - destruct (link_list s n) as [l|]; [|exact I].
    pose proof (run_list_ext a q (l ++ [n]) s c false) as H. destruct (run_list a q s (l ++ [n]) c false) as [s1|s1|e]; cbn in *; auto.
    specialize (IH s1). destruct (pass a q s1 es); cbn in *; auto; eapply ext_trans; eauto.
  - destruct (memn n (lget t (links s))); [apply IH|].
    match goal with |- context [if added ?x then _ else _] => set (s1 := x) end.
    assert (E1 : ext s s1) by now apply ext_same.
    destruct (added s1).
    + specialize (IH s1). destruct (pass a q s1 es); cbn in *; auto; eapply ext_trans; eauto.
    + destruct (link_list s1 t) as [l|]; [|exact I].
      match goal with |- pres_ext s (pass a q ?x es) => assert (E2 : ext s x) by (destruct (existsb _ _); [now apply ext_same|exact E1]); specialize (IH x); destruct (pass a q x es) end;
        cbn in *; auto; eapply ext_trans; eauto.
Qed.
Lemma read_all_ext a q : forall fuel s r, read_all fuel a q s = Some r -> match r with inl s' => ext s s' | inr (s', _) => ext s s' end.
Proof.
  induction fuel as [|f IH]; intros s r; cbn [read_all].
  - destruct (hs s); [intro H; inversion H; apply ext_refl|discriminate].
  - destruct (hs s); [intro H; inversion H; apply ext_refl|].
    pose proof (pass_ext a q (entries a) (upd_added s false)) as Hp.
    destruct (pass a q (upd_added s false) (entries a)) as [s1|s1|e]; cbn in Hp.
    + destruct (added s1); [intro H; apply IH in H; destruct r as [s'|[s' e]]; (eapply ext_trans; [|exact H]); exact Hp|intro H; inversion H; exact Hp].
    + intro H; inversion H. exact Hp.
    + intro H; inversion H. apply ext_refl.
Qed.
