(* Proofs/Pins01.v — the resume conditions of reghttp Resp.next / Resp.Read, as they are in internal/reghttp/http.go; Model/C01_Resume.v transliterates them *)
From Coq Require Import List String Bool.
From Verif Require Import Gen.CondPins.
Import ListNotations.
Open Scope string_scope.
Example C01_resume_conditions_pinned :
  filter (fun p => String.prefix "resume" (fst p)) cond_pins =
  [("resume_range", "resp.readCur > 0 && resp.readMax > 0");
   ("resume_done", "resp.resp.Request.Method == ""HEAD"" || resp.readCur >= resp.readMax")].
Proof. reflexivity. Qed.
