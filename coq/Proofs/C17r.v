(* Proofs/C17r.v — one response never waits for a slot while holding one, holds at most one, and holds none after a call of
   next that failed; without the release of the previous attempt's slot a resumed read waits while holding (refuted) *)
From Coq Require Import List Arith Bool Lia.
From Verif Require Import Model.C17_Resp.
Import ListNotations.

Theorem resp_slot_discipline : forall calls held, held <= 1 ->
  exists h, resp_run true true held calls = Some h /\ h <= 1 /\
            (forall pre, calls = pre ++ [false] -> h = 0).
Proof.
  induction calls as [|c rest IH]; intros held Hh; cbn [resp_run].
  - exists held. split; [reflexivity|]. split; [exact Hh|]. intros pre E. destruct pre; discriminate.
  - unfold next_slot. cbn. destruct (IH (if c then 1 else 0) ltac:(destruct c; lia)) as (h & Hr & Hle & Hlast).
    exists h. split; [exact Hr|]. split; [exact Hle|]. intros pre E.
    destruct pre as [|x pre]; cbn in E.
    + injection E as -> ->. cbn in Hr. injection Hr as <-. reflexivity.
    + injection E as _ E. now apply (Hlast pre).
Qed.

Theorem late_release_refuted : resp_run false true 0 [true; true] = None.
Proof. reflexivity. Qed.
Theorem leaking_exit_refuted : resp_run true false 0 [false] = Some 1.
Proof. reflexivity. Qed.
