(* Proofs/Pins05.v — the two conditions that apply an announced OCI-Chunk-Min-Length, as they are in scheme/reg/blob.go; Model/C05_Chunk.v (raise) transliterates them *)
From Coq Require Import List String Bool.
From Verif Require Import Gen.CondPins.
Import ListNotations.
Open Scope string_scope.
Example C05_chunk_rule_conditions_pinned :
  filter (fun p => String.prefix "chunk_min" (fst p)) cond_pins =
  [("chunk_min_uploadurl", "(host.BlobChunk > 0 && minSize > host.BlobChunk) || (host.BlobChunk <= 0 && minSize > reg.blobChunkSize)");
   ("chunk_min_mount", "(host.BlobChunk > 0 && minSize > host.BlobChunk) || (host.BlobChunk <= 0 && minSize > reg.blobChunkSize)")].
Proof. reflexivity. Qed.
