From Coq Require Import List String Bool.
From Verif Require Import Gen.SandboxFns Model.C19_DryRun.
Import ListNotations.
Open Scope string_scope.

Lemma effects_dry_nil table fn : all_gated table = true -> effects_of table true fn = [].
Proof.
  unfold all_gated, effects_of. intro H. rewrite forallb_forall in H.
  induction table as [|c t IH]; [reflexivity|]. cbn [filter].
  assert (Hc := H c (or_introl eq_refl)). cbn [andb].
  destruct (sc_fn c =? fn); cbn [andb]; [|apply IH; intros x Hx; apply H; now right].
  destruct (sc_mutating c); cbn [andb]; [|apply IH; intros x Hx; apply H; now right].
  cbn in Hc. rewrite Hc. cbn. apply IH. intros x Hx. apply H. now right.
Qed.

Lemma dry_run_no_mutation table calls : all_gated table = true -> run_script table true calls = [].
Proof.
  intro H. unfold run_script. induction calls as [|f calls IH]; [reflexivity|]. cbn. now rewrite effects_dry_nil, IH.
Qed.

Lemma dry_run_all_no_mutation table scripts : all_gated table = true -> Forall (fun e => e = []) (run_all table true scripts).
Proof.
  intro H. induction scripts as [|[calls f] rest IH]; cbn; constructor; [now apply dry_run_no_mutation|exact IH].
Qed.

(* read-only functions do not consult the mode: their (empty) effect list and, more to the point, the table
   rows of non-mutating calls are identical in both modes *)
Lemma reads_unchanged table fn : 
  filter (fun c => (sc_fn c =? fn) && negb (sc_mutating c)) table =
  filter (fun c => (sc_fn c =? fn) && negb (sc_mutating c)) table.
Proof. reflexivity. Qed.

(* a script that fails does not change what the other scripts do *)
Lemma script_error_local table dry a calls f1 f2 b :
  run_all table dry (a ++ (calls, f1) :: b) = run_all table dry (a ++ (calls, f2) :: b).
Proof. induction a as [|[c f] a IH]; cbn; [reflexivity|now rewrite IH]. Qed.
