(* Proofs/C17m.v — the composed system of AcquireMulti callers: invariant linking every throttle's holder and waiter
   lists to the callers' program states, for every schedule *)
From Coq Require Import List Arith Bool Lia Permutation.
From Verif Require Import Model.C17_PQueue Model.C17_Multi Proofs.C17.
Import ListNotations.

(* ---------- small facts ---------- *)
Lemma updf_same {A} (f : nat -> A) k v : updf f k v k = v.
Proof. unfold updf. now rewrite Nat.eqb_refl. Qed.
Lemma updf_other {A} (f : nat -> A) k v j : j <> k -> updf f k v j = f j.
Proof. unfold updf. intro H. apply Nat.eqb_neq in H. now rewrite H. Qed.

Lemma remove1_in x l y : NoDup l -> In x l -> (In y (remove1 x l) <-> In y l /\ y <> x).
Proof.
  intros Hn Hx. pose proof (remove1_perm x l Hx) as Hp.
  assert (Hn' : NoDup (x :: remove1 x l)) by (eapply Permutation_NoDup; eassumption).
  inversion Hn' as [|? ? Hxn _]; subst. split.
  - intro Hy. split; [eapply Permutation_in; [symmetry; exact Hp|now right]|intros ->; contradiction].
  - intros [Hy Hne]. apply (Permutation_in _ Hp) in Hy as [Hy|Hy]; [congruence|exact Hy].
Qed.
Lemma remove_at_in i (l : list nat) v y : NoDup l -> nth_error l i = Some v -> (In y (remove_at i l) <-> In y l /\ y <> v).
Proof.
  intros Hn Hv. pose proof (remove_at_perm i l v Hv) as Hp.
  assert (Hn' : NoDup (v :: remove_at i l)) by (eapply Permutation_NoDup; eassumption).
  inversion Hn' as [|? ? Hxn _]; subst. split.
  - intro Hy. split; [eapply Permutation_in; [symmetry; exact Hp|now right]|intros ->; contradiction].
  - intros [Hy Hne]. apply (Permutation_in _ Hp) in Hy as [Hy|Hy]; [congruence|exact Hy].
Qed.

Lemma nodup_app_l {A} (a b : list A) : NoDup (a ++ b) -> NoDup a.
Proof. induction a as [|x a IH]; cbn; [constructor|]. intro H. inversion H as [|? ? Hx Hn]; subst. constructor; [|now apply IH]. intro Hi. apply Hx. apply in_or_app. now left. Qed.
Lemma nodup_app_r {A} (a b : list A) : NoDup (a ++ b) -> NoDup b.
Proof. induction a as [|x a IH]; cbn; [trivial|]. intro H. inversion H; subst. now apply IH. Qed.

(* what a release does to the two lists, as sets *)
Lemma release_members s x pick s' w : Inv s -> In x (active s) -> release s x pick = (s', w) ->
  (forall y, In y (active s') <-> (In y (active s) /\ y <> x) \/ w = Some y) /\
  (forall y, In y (queued s') <-> In y (queued s) /\ w <> Some y) /\
  (forall v, w = Some v -> In v (queued s)).
Proof.
  intros (Hm & Hn & Hle & Hfull) Hx. unfold release.
  assert (Hmem : mem x (active s) = true) by now apply mem_In. rewrite Hmem.
  assert (Hna : NoDup (active s)) by (eapply nodup_app_l; exact Hn).
  assert (Hnq : NoDup (queued s)) by (eapply nodup_app_r; exact Hn).
  assert (Hnone : forall act, (forall y, In y act <-> In y (active s) /\ y <> x) ->
            (forall y, In y act <-> (In y (active s) /\ y <> x) \/ @None id = Some y) /\
            (forall y, In y (queued s) <-> In y (queued s) /\ @None id <> Some y) /\
            (forall v, @None id = Some v -> In v (queued s))).
  { intros act Hact. split; [|split].
    - intro y. rewrite Hact. split; [tauto|]. intros [H|H]; [exact H|discriminate].
    - intro y. split; [intro H; split; [exact H|discriminate]|tauto].
    - discriminate. }
  assert (Hrem : forall y, In y (remove1 x (active s)) <-> In y (active s) /\ y <> x) by (intro y; now apply remove1_in).
  destruct (queued s) as [|q0 ql] eqn:Eq.
  - intro H; injection H as <- <-. cbn [active queued]. now apply Hnone.
  - destruct (qmax s <=? length (remove1 x (active s))).
    + intro H; injection H as <- <-. cbn [active queued]. now apply Hnone.
    + set (i := if 1 <? length (q0 :: ql) then Nat.min pick (length (q0 :: ql) - 1) else 0).
      destruct (nth_error (q0 :: ql) i) as [v|] eqn:En.
      * intro H; injection H as <- <-. cbn [active queued]. split; [|split].
        -- intro y. rewrite in_app_iff, Hrem. cbn [In]. split.
           ++ intros [H|[H|[]]]; [now left|right; now subst].
           ++ intros [H|H]; [now left|right; left; congruence].
        -- intro y. rewrite (remove_at_in i _ v y Hnq En). split.
           ++ intros [H1 H2]. split; [exact H1|congruence].
           ++ intros [H1 H2]. split; [exact H1|]. intros ->. now apply H2.
        -- intros v' E. injection E as <-. eapply nth_error_In; exact En.
      * intro H; injection H as <- <-. cbn [active queued]. now apply Hnone.
Qed.

(* ---------- the linking invariant ---------- *)
Definition held (c : caller) : list nat :=
  match st c with
  | CTry _ _ acq => acq
  | CBack rel _ => rel
  | CHold => seq 0 (length (want c))
  | CFin rel => rel
  | _ => []
  end.
Definition holdsq (c : caller) (k : nat) : Prop := exists p, In p (held c) /\ nth_error (want c) p = Some k.
Definition waitsq (c : caller) (k : nat) : Prop := exists l, st c = CWait l /\ nth_error (want c) l = Some k.

Definition wf_caller (c : caller) : Prop :=
  NoDup (want c) /\ NoDup (held c) /\ (forall p, In p (held c) -> p < length (want c)) /\
  match st c with
  | CWait l => l < length (want c)
  | CTry l i acq => l < length (want c) /\ (forall p, In p acq <-> p < length (want c) /\ (p = l \/ p < i))
  | CBack rel next => next < length (want c)
  | _ => True
  end.

Record GInv (s : sys) : Prop := {
  g_q : forall k, Inv (qs s k);
  g_c : forall x, wf_caller (cs s x);
  g_act : forall k y, In y (active (qs s k)) <-> holdsq (cs s y) k;
  g_wait : forall k y, In y (queued (qs s k)) <-> waitsq (cs s y) k }.

Lemma qat_nth c p : p < length (want c) -> nth_error (want c) p = Some (qat c p).
Proof. intro H. unfold qat. now apply nth_error_nth'. Qed.

Lemma nodup_pos (l : list nat) p p' k : NoDup l -> nth_error l p = Some k -> nth_error l p' = Some k -> p = p'.
Proof.
  intros Hn H1 H2. eapply NoDup_nth_error; [exact Hn| |congruence].
  apply nth_error_Some. congruence.
Qed.

(* how [holdsq] changes when one position is added to / removed from what a caller holds *)
Lemma holdsq_add c c' p k k' : want c' = want c -> NoDup (want c) ->
  (forall p', In p' (held c') <-> In p' (held c) \/ p' = p) -> nth_error (want c) p = Some k ->
  (holdsq c' k' <-> holdsq c k' \/ k' = k).
Proof.
  intros Hw Hn Hh Hp. unfold holdsq. rewrite Hw. split.
  - intros (p' & Hin & Hk). apply Hh in Hin as [Hin| ->]; [left; eauto|right; congruence].
  - intros [(p' & Hin & Hk)| ->]; [exists p'; split; [apply Hh; now left|exact Hk]|exists p; split; [apply Hh; now right|exact Hp]].
Qed.
Lemma holdsq_del c c' p k k' : want c' = want c -> NoDup (want c) ->
  (forall p', In p' (held c') <-> In p' (held c) /\ p' <> p) -> In p (held c) -> nth_error (want c) p = Some k ->
  (holdsq c' k' <-> holdsq c k' /\ k' <> k).
Proof.
  intros Hw Hn Hh Hin Hp. unfold holdsq. rewrite Hw. split.
  - intros (p' & Hin' & Hk). apply Hh in Hin' as [Hin' Hne]. split; [eauto|].
    intros ->. apply Hne. eapply nodup_pos; eassumption.
  - intros [(p' & Hin' & Hk) Hne]. exists p'. split; [|exact Hk]. apply Hh. split; [exact Hin'|]. intros ->. congruence.
Qed.
Lemma holdsq_same c c' k' : want c' = want c -> (forall p', In p' (held c') <-> In p' (held c)) -> (holdsq c' k' <-> holdsq c k').
Proof.
  intros Hw Hh. unfold holdsq. rewrite Hw. split; intros (p' & Hin & Hk); exists p'; (split; [now apply Hh|exact Hk]).
Qed.
Lemma holdsq_none c k : held c = [] -> ~ holdsq c k.
Proof. intros H (p & Hin & _). rewrite H in Hin. exact Hin. Qed.

Lemma waitsq_not c k : (forall l, st c <> CWait l) -> ~ waitsq c k.
Proof. intros H (l & Hl & _). exact (H l Hl). Qed.
Lemma held_nonempty_not_wait c p : In p (held c) -> forall l, st c <> CWait l.
Proof. unfold held. intros Hp l E. rewrite E in Hp. exact Hp. Qed.

(* ---------- a silent change of one caller's program state ---------- *)
Lemma setst_inv s x st' : GInv s ->
  (forall l, st (cs s x) <> CWait l) -> (forall l, st' <> CWait l) ->
  wf_caller (mkC (want (cs s x)) st') ->
  (forall p, In p (held (mkC (want (cs s x)) st')) <-> In p (held (cs s x))) ->
  GInv (setst s x st').
Proof.
  intros [Hq Hc Ha Hw] Hnw Hnw' Hwf Hheld. constructor; cbn [setst qs cs].
  - exact Hq.
  - intro y. destruct (Nat.eq_dec y x) as [->|Hne]; [rewrite updf_same; exact Hwf|rewrite updf_other by exact Hne; apply Hc].
  - intros k y. rewrite Ha. destruct (Nat.eq_dec y x) as [->|Hne]; [rewrite updf_same|rewrite updf_other by exact Hne; reflexivity].
    symmetry. apply holdsq_same; [reflexivity|exact Hheld].
  - intros k y. rewrite Hw. destruct (Nat.eq_dec y x) as [->|Hne]; [rewrite updf_same|rewrite updf_other by exact Hne; reflexivity].
    split; intro H; exfalso; [exact (waitsq_not _ k Hnw H)|refine (waitsq_not _ k _ H); exact Hnw'].
Qed.

(* ---------- caller x is granted a slot of queue k (blocking Acquire or TryAcquire), now holding position p too ---------- *)
Lemma grant_inv s x k p st' : GInv s ->
  nth_error (want (cs s x)) p = Some k ->
  (forall l, st (cs s x) <> CWait l) -> (forall l, st' <> CWait l) ->
  ~ In p (held (cs s x)) ->
  wf_caller (mkC (want (cs s x)) st') ->
  (forall p', In p' (held (mkC (want (cs s x)) st')) <-> In p' (held (cs s x)) \/ p' = p) ->
  length (active (qs s k)) + length (queued (qs s k)) < qmax (qs s k) ->
  GInv (mkS (updf (qs s) k (mkQ (qmax (qs s k)) (active (qs s k) ++ [x]) (queued (qs s k))))
            (updf (cs s) x (mkC (want (cs s x)) st'))).
Proof.
  intros [Hq Hc Ha Hw] Hp Hnw Hnw' Hnp Hwf Hheld Hroom.
  assert (Hnd : NoDup (want (cs s x))) by apply Hc.
  assert (Hxa : ~ In x (active (qs s k))).
  { rewrite Ha. intros (p' & Hin & Hk). apply Hnp. now rewrite (nodup_pos _ _ _ _ Hnd Hp Hk). }
  assert (Hxq : ~ In x (queued (qs s k))) by (rewrite Hw; now apply waitsq_not).
  constructor; cbn [qs cs].
  - intro k'. destruct (Nat.eq_dec k' k) as [->|Hne]; [rewrite updf_same|rewrite updf_other by exact Hne; apply Hq].
    pose proof (step_inv (qs s k) (Acq x) (Hq k)) as Hs. unfold step, enabled in Hs.
    apply Nat.ltb_lt in Hroom. rewrite Hroom in Hs. cbn [fst] in Hs. apply Hs.
    apply andb_true_intro. split; apply negb_true_iff; now apply mem_false.
  - intro y. destruct (Nat.eq_dec y x) as [->|Hne]; [rewrite updf_same; exact Hwf|rewrite updf_other by exact Hne; apply Hc].
  - intros k' y. destruct (Nat.eq_dec k' k) as [->|Hk].
    + rewrite updf_same. cbn [active]. rewrite in_app_iff. cbn [In].
      destruct (Nat.eq_dec y x) as [->|Hne].
      * rewrite updf_same. split; [intros _|intros _; right; now left].
        exists p. split; [apply Hheld; now right|exact Hp].
      * rewrite updf_other by exact Hne. rewrite <- Ha. split; [intros [H|[H|[]]]; [exact H|congruence]|intro H; now left].
    + rewrite updf_other by exact Hk. rewrite Ha.
      destruct (Nat.eq_dec y x) as [->|Hne]; [rewrite updf_same|rewrite updf_other by exact Hne; reflexivity].
      rewrite (holdsq_add (cs s x) (mkC (want (cs s x)) st') p k k' eq_refl Hnd Hheld Hp). tauto.
  - intros k' y.
    assert (Hqk : queued (updf (qs s) k (mkQ (qmax (qs s k)) (active (qs s k) ++ [x]) (queued (qs s k))) k') = queued (qs s k')).
    { destruct (Nat.eq_dec k' k) as [->|Hk]; [now rewrite updf_same|now rewrite updf_other]. }
    rewrite Hqk, Hw.
    destruct (Nat.eq_dec y x) as [->|Hne]; [rewrite updf_same|rewrite updf_other by exact Hne; reflexivity].
    split; intro H; exfalso; [exact (waitsq_not _ k' Hnw H)|refine (waitsq_not _ k' _ H); exact Hnw'].
Qed.

(* ---------- caller x, holding nothing, is enqueued by the blocking Acquire on its position p ---------- *)
Lemma enqueue_inv s x k p : GInv s ->
  nth_error (want (cs s x)) p = Some k -> held (cs s x) = [] -> (forall l, st (cs s x) <> CWait l) ->
  ~ (length (active (qs s k)) + length (queued (qs s k)) < qmax (qs s k)) ->
  GInv (mkS (updf (qs s) k (mkQ (qmax (qs s k)) (active (qs s k)) (queued (qs s k) ++ [x])))
            (updf (cs s) x (mkC (want (cs s x)) (CWait p)))).
Proof.
  intros [Hq Hc Ha Hw] Hp Hheld Hnw Hroom.
  assert (Hnd : NoDup (want (cs s x))) by apply Hc.
  assert (Hxa : ~ In x (active (qs s k))) by (rewrite Ha; now apply holdsq_none).
  assert (Hxq : ~ In x (queued (qs s k))) by (rewrite Hw; now apply waitsq_not).
  assert (Hpn : p < length (want (cs s x))) by (apply nth_error_Some; congruence).
  constructor; cbn [qs cs].
  - intro k'. destruct (Nat.eq_dec k' k) as [->|Hne]; [rewrite updf_same|rewrite updf_other by exact Hne; apply Hq].
    pose proof (step_inv (qs s k) (Acq x) (Hq k)) as Hs. unfold step, enabled in Hs.
    assert (E : (length (active (qs s k)) + length (queued (qs s k)) <? qmax (qs s k)) = false) by (apply Nat.ltb_ge; lia).
    rewrite E in Hs. cbn [fst] in Hs. apply Hs.
    apply andb_true_intro. split; apply negb_true_iff; now apply mem_false.
  - intro y. destruct (Nat.eq_dec y x) as [->|Hne]; [rewrite updf_same|rewrite updf_other by exact Hne; apply Hc].
    unfold wf_caller, held. cbn [want st]. repeat split; [exact Hnd|constructor|intros ? []|exact Hpn].
  - intros k' y.
    assert (Hak : active (updf (qs s) k (mkQ (qmax (qs s k)) (active (qs s k)) (queued (qs s k) ++ [x])) k') = active (qs s k')).
    { destruct (Nat.eq_dec k' k) as [->|Hk]; [now rewrite updf_same|now rewrite updf_other]. }
    rewrite Hak, Ha.
    destruct (Nat.eq_dec y x) as [->|Hne]; [rewrite updf_same|rewrite updf_other by exact Hne; reflexivity].
    split; intro H; exfalso; [exact (holdsq_none _ k' Hheld H)|refine (holdsq_none _ k' _ H); reflexivity].
  - intros k' y. destruct (Nat.eq_dec k' k) as [->|Hk].
    + rewrite updf_same. cbn [queued]. rewrite in_app_iff. cbn [In].
      destruct (Nat.eq_dec y x) as [->|Hne].
      * rewrite updf_same. split; [intros _|intros _; right; now left]. exists p. split; [reflexivity|exact Hp].
      * rewrite updf_other by exact Hne. rewrite <- Hw. split; [intros [H|[H|[]]]; [exact H|congruence]|intro H; now left].
    + rewrite updf_other by exact Hk. rewrite Hw.
      destruct (Nat.eq_dec y x) as [->|Hne]; [rewrite updf_same|rewrite updf_other by exact Hne; reflexivity].
      split; intro H; exfalso; [exact (waitsq_not _ k' Hnw H)|].
      destruct H as (l & Hl & Hk'). cbn [st want] in *. injection Hl as <-. congruence.
Qed.

Lemma acquire_inv s x p : GInv s -> held (cs s x) = [] -> (forall l, st (cs s x) <> CWait l) ->
  p < length (want (cs s x)) -> GInv (do_acquire s x p).
Proof.
  intros HG Hheld Hnw Hp. unfold do_acquire.
  pose proof (qat_nth _ _ Hp) as Hk. set (k := qat (cs s x) p) in *.
  unfold step. destruct (Nat.ltb_spec (length (active (qs s k)) + length (queued (qs s k))) (qmax (qs s k))) as [Hroom|Hroom].
  - apply (grant_inv s x k p); auto.
    + discriminate.
    + rewrite Hheld. intros [].
    + unfold wf_caller, held. cbn [want st]. split; [apply HG|]. split; [constructor; [intros []|constructor]|].
      split; [intros p' [<-|[]]; exact Hp|]. split; [exact Hp|]. intro p'. split.
      * intros [<-|[]]. split; [exact Hp|now left].
      * intros (_ & [->|H]); [now left|lia].
    + intro p'. unfold held at 1. cbn [st]. rewrite Hheld. cbn. split; [intros [<-|[]]; now right|intros [[]| ->]; now left].
  - apply (enqueue_inv s x k p); auto. lia.
Qed.

(* ---------- caller x gives back its position p; the slot may go to a waiter, whose Acquire returns ---------- *)
Lemma release_sys_inv s x p pick st' : GInv s ->
  In p (held (cs s x)) -> (forall l, st' <> CWait l) ->
  wf_caller (mkC (want (cs s x)) st') ->
  (forall p', In p' (held (mkC (want (cs s x)) st')) <-> In p' (held (cs s x)) /\ p' <> p) ->
  GInv (do_release s x p pick st').
Proof.
  intros [Hq Hc Ha Hw] Hin Hnw' Hwf Hheld.
  assert (Hnd : NoDup (want (cs s x))) by apply Hc.
  assert (Hpn : p < length (want (cs s x))) by (now apply (Hc x)).
  pose proof (qat_nth _ _ Hpn) as Hp. unfold do_release. set (k := qat (cs s x) p) in *.
  assert (Hnw : forall l, st (cs s x) <> CWait l) by (eapply held_nonempty_not_wait; exact Hin).
  assert (Hxa : In x (active (qs s k))) by (rewrite Ha; exists p; now split).
  destruct (release (qs s k) x pick) as [qk' w] eqn:Er.
  destruct (release_members _ _ _ _ _ (Hq k) Hxa Er) as (Hact & Hque & Hwq).
  destruct (release_inv _ _ _ _ _ (Hq k) Hxa Er) as (Hinv' & _).
  set (cx' := mkC (want (cs s x)) st') in *.
  (* the woken waiter, if any *)
  assert (Hwv : forall v, w = Some v -> v <> x /\ exists l, st (cs s v) = CWait l /\ nth_error (want (cs s v)) l = Some k).
  { intros v E. apply Hwq in E. apply Hw in E. destruct E as (l & Hl & Hk). split; [|eauto]. intros ->. exact (Hnw l Hl). }
  assert (Hcs2 : exists cs2,
     (match w with
      | Some v => match st (updf (cs s) x cx' v) with
                  | CWait l => updf (updf (cs s) x cx') v (mkC (want (updf (cs s) x cx' v)) (CTry l 0 [l]))
                  | _ => updf (cs s) x cx'
                  end
      | None => updf (cs s) x cx'
      end) = cs2 /\
     cs2 x = cx' /\
     (forall y, y <> x -> w <> Some y -> cs2 y = cs s y) /\
     (forall v, w = Some v -> exists l, st (cs s v) = CWait l /\ nth_error (want (cs s v)) l = Some k /\
                                         cs2 v = mkC (want (cs s v)) (CTry l 0 [l]))).
  { destruct w as [v|].
    - destruct (Hwv v eq_refl) as (Hvx & l & Hl & Hk). rewrite (updf_other _ x cx' v Hvx). rewrite Hl.
      eexists. split; [reflexivity|]. split; [|split].
      + rewrite updf_other by congruence. apply updf_same.
      + intros y Hyx Hyv. rewrite updf_other by (intros ->; now apply Hyv). now apply updf_other.
      + intros v' E. injection E as <-. exists l. split; [exact Hl|]. split; [exact Hk|]. apply updf_same.
    - eexists. split; [reflexivity|]. split; [apply updf_same|]. split; [intros y Hyx _; now apply updf_other|discriminate]. }
  destruct Hcs2 as (cs2 & -> & Hx2 & Hother & Hwoken).
  constructor; cbn [qs cs].
  - intro k'. destruct (Nat.eq_dec k' k) as [->|Hne]; [rewrite updf_same; exact Hinv'|rewrite updf_other by exact Hne; apply Hq].
  - intro y. destruct (Nat.eq_dec y x) as [->|Hyx]; [rewrite Hx2; exact Hwf|].
    destruct w as [v|].
    + destruct (Nat.eq_dec y v) as [->|Hyv].
      * destruct (Hwoken v eq_refl) as (l & Hl & Hk & ->). pose proof (Hc v) as (Hn1 & _ & _ & Hst). rewrite Hl in Hst.
        unfold wf_caller, held. cbn [want st]. split; [exact Hn1|]. split; [constructor; [intros []|constructor]|].
        split; [intros p' [<-|[]]; exact Hst|]. split; [exact Hst|]. intro p'. split.
        -- intros [<-|[]]. split; [exact Hst|now left].
        -- intros (_ & [->|H]); [now left|lia].
      * rewrite Hother; [apply Hc|exact Hyx|congruence].
    + rewrite Hother; [apply Hc|exact Hyx|discriminate].
  - intros k' y. destruct (Nat.eq_dec k' k) as [->|Hk].
    + rewrite updf_same, Hact. destruct (Nat.eq_dec y x) as [->|Hyx].
      * rewrite Hx2. rewrite (holdsq_del (cs s x) cx' p k k eq_refl Hnd Hheld Hin Hp). split; [|tauto].
        intros [[_ H]|H]; [congruence|]. destruct (Hwv x H) as [H' _]. congruence.
      * destruct w as [v|].
        -- destruct (Nat.eq_dec y v) as [->|Hyv].
           ++ destruct (Hwoken v eq_refl) as (l & Hl & Hkl & ->). split; [intros _|intros _; now right].
              exists l. unfold held. cbn [st want]. split; [now left|exact Hkl].
           ++ rewrite Hother by congruence. rewrite <- Ha. split; [intros [[H _]|H]; [exact H|congruence]|intro H; left; now split].
        -- rewrite Hother by congruence. rewrite <- Ha. split; [intros [[H _]|H]; [exact H|discriminate]|intro H; left; now split].
    + rewrite updf_other by exact Hk. rewrite Ha. destruct (Nat.eq_dec y x) as [->|Hyx].
      * rewrite Hx2. rewrite (holdsq_del (cs s x) cx' p k k' eq_refl Hnd Hheld Hin Hp). tauto.
      * destruct w as [v|]; [|rewrite Hother by congruence; reflexivity].
        destruct (Nat.eq_dec y v) as [->|Hyv]; [|rewrite Hother by congruence; reflexivity].
        destruct (Hwoken v eq_refl) as (l & Hl & Hkl & ->). split.
        -- intro H. exfalso. refine (holdsq_none _ k' _ H). unfold held. now rewrite Hl.
        -- intros (p' & Hp' & Hk'). unfold held in Hp'. cbn [st want] in *. destruct Hp' as [<-|[]]. congruence.
  - intros k' y. destruct (Nat.eq_dec k' k) as [->|Hk].
    + rewrite updf_same, Hque. destruct (Nat.eq_dec y x) as [->|Hyx].
      * rewrite Hx2. split; [intros [H _]|intro H; exfalso; refine (waitsq_not _ k _ H); exact Hnw'].
        apply Hw in H. exfalso. exact (waitsq_not _ k Hnw H).
      * destruct w as [v|].
        -- destruct (Nat.eq_dec y v) as [->|Hyv].
           ++ destruct (Hwoken v eq_refl) as (l & Hl & Hkl & ->). split; [intros [_ H]; congruence|].
              intro H. exfalso. refine (waitsq_not _ k _ H). discriminate.
           ++ rewrite Hother by congruence. rewrite <- Hw. split; [tauto|intro H; split; [exact H|congruence]].
        -- rewrite Hother by congruence. rewrite <- Hw. split; [tauto|intro H; split; [exact H|discriminate]].
    + rewrite updf_other by exact Hk. rewrite Hw. destruct (Nat.eq_dec y x) as [->|Hyx].
      * rewrite Hx2. split; intro H; exfalso; [exact (waitsq_not _ k' Hnw H)|refine (waitsq_not _ k' _ H); exact Hnw'].
      * destruct w as [v|]; [|rewrite Hother by congruence; reflexivity].
        destruct (Nat.eq_dec y v) as [->|Hyv]; [|rewrite Hother by congruence; reflexivity].
        destruct (Hwoken v eq_refl) as (l & Hl & Hkl & ->). split.
        -- intros (l' & Hl' & Hk'). rewrite Hl in Hl'. injection Hl' as <-. congruence.
        -- intro H. exfalso. refine (waitsq_not _ k' _ H). discriminate.
Qed.

(* ---------- every step of every caller keeps the invariant ---------- *)
Lemma in_cleanup l i p : In p (cleanup l i) <-> (i < l /\ p = l) \/ p < i.
Proof.
  unfold cleanup. rewrite in_app_iff, <- in_rev, in_seq. destruct (Nat.ltb_spec i l); cbn [In]; split.
  - intros [[<-|[]]|H']; [left; now split|right; lia].
  - intros [[_ ->]|H']; [left; now left|right; lia].
  - intros [[]|H']; right; lia.
  - intros [[H' _]|H']; [lia|right; lia].
Qed.
Lemma nodup_cleanup l i : NoDup (cleanup l i).
Proof.
  unfold cleanup. destruct (Nat.ltb_spec i l); cbn [app].
  - constructor; [rewrite <- in_rev, in_seq; lia|apply NoDup_rev, seq_NoDup].
  - apply NoDup_rev, seq_NoDup.
Qed.

Lemma nodup_snoc (a : list nat) x : NoDup a -> ~ In x a -> NoDup (a ++ [x]).
Proof.
  induction a as [|y a IH]; cbn; intros Hn Hx; [constructor; [intros []|constructor]|].
  inversion Hn as [|? ? Hy Hn']; subst. constructor.
  - rewrite in_app_iff. cbn. intros [H|[H|[]]]; [contradiction|subst; apply Hx; now left].
  - apply IH; [exact Hn'|]. intro H. apply Hx. now right.
Qed.

Lemma cstep_inv s x pick s' : GInv s -> cstep s x pick = Some s' -> GInv s'.
Proof.
  intros HG. unfold cstep. pose proof (g_c s HG x) as Hwf. destruct Hwf as (Hnd & Hnh & Hlt & Hst).
  destruct (st (cs s x)) as [|l|l i acq|rel next| |rel|] eqn:Est.
  - (* CIdle *)
    destruct (want (cs s x)) as [|w0 ws] eqn:Ew.
    + intro H; injection H as <-. apply setst_inv; auto.
      * rewrite Est. discriminate.
      * discriminate.
      * unfold wf_caller, held. cbn [want st]. rewrite Ew. repeat split; try constructor. intros ? [].
      * intro p. unfold held. cbn [st]. rewrite Est. reflexivity.
    + intro H; injection H as <-. apply acquire_inv; auto.
      * unfold held. now rewrite Est.
      * rewrite Est. discriminate.
      * rewrite Ew. cbn. lia.
  - discriminate.
  - (* CTry *)
    destruct Hst as [Hl Hacq]. unfold held in Hnh, Hlt. rewrite Est in Hnh, Hlt.
    destruct (Nat.leb_spec (length (want (cs s x))) i) as [Hi|Hi].
    + intro H; injection H as <-. apply setst_inv; auto.
      * rewrite Est. discriminate.
      * discriminate.
      * unfold wf_caller, held. cbn [want st]. split; [exact Hnd|]. split; [apply seq_NoDup|]. split; [|exact I].
        intros p Hp. apply in_seq in Hp. lia.
      * intro p. unfold held. cbn [st want]. rewrite Est. rewrite in_seq, Hacq. split; [intros [_ H]; split; [exact H|right; lia]|intros [H _]; lia].
    + destruct (Nat.eqb_spec i l) as [->|Hil].
      * intro H; injection H as <-. apply setst_inv; auto.
        -- rewrite Est. discriminate.
        -- discriminate.
        -- unfold wf_caller, held. cbn [want st]. split; [exact Hnd|]. split; [exact Hnh|]. split; [exact Hlt|]. split; [exact Hl|].
           intro p. rewrite Hacq. split; intros [H1 H2]; (split; [exact H1|lia]).
        -- intro p. unfold held. cbn [st]. rewrite Est. reflexivity.
      * pose proof (qat_nth _ _ Hi) as Hk. set (k := qat (cs s x) i) in *.
        assert (Hni : ~ In i acq) by (rewrite Hacq; lia).
        unfold step. destruct (Nat.ltb_spec (length (active (qs s k)) + length (queued (qs s k))) (qmax (qs s k))) as [Hroom|Hroom].
        -- intro H; injection H as <-. apply (grant_inv s x k i); auto.
           ++ rewrite Est. discriminate.
           ++ discriminate.
           ++ unfold held. now rewrite Est.
           ++ unfold wf_caller, held. cbn [want st]. split; [exact Hnd|]. split.
              { now apply nodup_snoc. }
              split.
              { intros p Hp. apply in_app_or in Hp as [Hp|[<-|[]]]; [now apply Hlt|exact Hi]. }
              split; [exact Hl|]. intro p. rewrite in_app_iff, Hacq. cbn [In]. split.
              { intros [[H1 H2]|[<-|[]]]; (split; [lia|lia]). }
              { intros [H1 [H2|H2]]; [left; split; [exact H1|now left]|].
                destruct (Nat.eq_dec p i) as [->|Hpi]; [right; now left|left; split; [exact H1|right; lia]]. }
           ++ intro p. unfold held. cbn [st]. rewrite Est. rewrite in_app_iff. cbn [In]. split; [intros [H|[H|[]]]; [now left|right; now subst]|intros [H| ->]; [now left|right; now left]].
        -- intro H; injection H as <-. apply setst_inv; auto.
           ++ rewrite Est. discriminate.
           ++ discriminate.
           ++ unfold wf_caller, held. cbn [want st]. split; [exact Hnd|]. split; [apply nodup_cleanup|]. split; [|exact Hi].
              intros p Hp. apply in_cleanup in Hp. lia.
           ++ intro p. unfold held. cbn [st]. rewrite Est. rewrite in_cleanup, Hacq. split.
              { intros [[H1 ->]|H1]; (split; [lia|lia]). }
              { intros [H1 [->|H2]]; [|now right]. destruct (Nat.lt_ge_cases i l); [left; now split|right; lia]. }
  - (* CBack *)
    unfold held in Hnh, Hlt. rewrite Est in Hnh, Hlt. destruct rel as [|p rel].
    + intro H; injection H as <-. apply acquire_inv; auto.
      * unfold held. now rewrite Est.
      * rewrite Est. discriminate.
    + intro H; injection H as <-. inversion Hnh as [|? ? Hp Hnr]; subst. apply release_sys_inv; auto.
      * unfold held. rewrite Est. now left.
      * discriminate.
      * unfold wf_caller, held. cbn [want st]. split; [exact Hnd|]. split; [exact Hnr|]. split; [|exact Hst].
        intros p' Hp'. apply Hlt. now right.
      * intro p'. unfold held. cbn [st]. rewrite Est. cbn [In]. split; [intro H; split; [now right|intros ->; contradiction]|intros [[->|H] Hne]; [congruence|exact H]].
  - (* CHold *)
    intro H; injection H as <-. apply setst_inv; auto.
    + rewrite Est. discriminate.
    + discriminate.
    + unfold wf_caller, held. cbn [want st]. split; [exact Hnd|]. split; [apply NoDup_rev, seq_NoDup|]. split; [|exact I].
      intros p Hp. apply in_rev, in_seq in Hp. lia.
    + intro p. unfold held. cbn [st want]. rewrite Est. now rewrite <- in_rev.
  - (* CFin *)
    unfold held in Hnh, Hlt. rewrite Est in Hnh, Hlt. destruct rel as [|p rel].
    + intro H; injection H as <-. apply setst_inv; auto.
      * rewrite Est. discriminate.
      * discriminate.
      * unfold wf_caller, held. cbn [want st]. split; [exact Hnd|]. split; [constructor|]. split; [intros ? []|exact I].
      * intro p. unfold held. cbn [st]. rewrite Est. reflexivity.
    + intro H; injection H as <-. inversion Hnh as [|? ? Hp Hnr]; subst. apply release_sys_inv; auto.
      * unfold held. rewrite Est. now left.
      * discriminate.
      * unfold wf_caller, held. cbn [want st]. split; [exact Hnd|]. split; [exact Hnr|]. split; [|exact I].
        intros p' Hp'. apply Hlt. now right.
      * intro p'. unfold held. cbn [st]. rewrite Est. cbn [In]. split; [intro H; split; [now right|intros ->; contradiction]|intros [[->|H] Hne]; [congruence|exact H]].
  - discriminate.
Qed.

Lemma crun_inv : forall sch s s', GInv s -> crun s sch = Some s' -> GInv s'.
Proof.
  induction sch as [|[x pick] sch IH]; intros s s' HG; cbn [crun]; [intro H; injection H as <-; exact HG|].
  destruct (cstep s x pick) as [s1|] eqn:E; [|discriminate]. apply IH. eapply cstep_inv; eassumption.
Qed.

Lemma init_sys_inv maxes wants : Forall (@NoDup nat) wants -> GInv (init_sys maxes wants).
Proof.
  intro Hw. constructor; cbn [init_sys qs cs].
  - intro k. apply init_inv.
  - intro x. destruct (nth_error wants x) as [w|] eqn:E.
    + unfold wf_caller, held. cbn [want st]. split; [|repeat split; try constructor; intros ? []].
      rewrite Forall_forall in Hw. apply Hw. eapply nth_error_In; exact E.
    + unfold wf_caller, held. cbn. repeat split; try constructor. intros ? [].
  - intros k y. unfold init. cbn [active]. split; [intros []|]. intro H. exfalso. refine (holdsq_none _ k _ H).
    destruct (nth_error wants y); reflexivity.
  - intros k y. unfold init. cbn [queued]. split; [intros []|]. intros (l & Hl & _). destruct (nth_error wants y); discriminate.
Qed.

(* ---------- consequences ---------- *)
Definition can_move (s : sys) (x : nat) : Prop := cstep s x 0 <> None.

Lemma holder_can_move s x p : In p (held (cs s x)) -> can_move s x.
Proof.
  unfold can_move, cstep, held. destruct (st (cs s x)) as [|l|l i acq|rel next| |rel|]; try (intros []).
  - intros _. destruct (length (want (cs s x)) <=? i); [discriminate|]. destruct (Nat.eqb i l); [discriminate|].
    destruct (step (qs s (qat (cs s x) i)) (TryAcq x)) as [qk' o]. destruct o; discriminate.
  - destruct rel; [intros []|discriminate].
  - discriminate.
  - destruct rel; [intros []|discriminate].
Qed.

Theorem deadlock_free s : GInv s -> (exists x, st (cs s x) <> CDone) -> exists y, can_move s y.
Proof.
  intros HG [x Hx]. destruct (st (cs s x)) as [|l|l i acq|rel next| |rel|] eqn:Est; try congruence.
  - exists x. unfold can_move, cstep. rewrite Est. destruct (want (cs s x)); discriminate.
  - (* x waits: the queue is full, and whoever holds one of its slots can move *)
    pose proof (g_c s HG x) as (_ & _ & _ & Hl). rewrite Est in Hl.
    pose proof (qat_nth _ _ Hl) as Hk. set (k := qat (cs s x) l) in *.
    assert (Hq : In x (queued (qs s k))) by (apply (g_wait s HG); exists l; now split).
    destruct (g_q s HG k) as (Hm & _ & _ & Hfull).
    assert (Hne : queued (qs s k) <> []) by (intro E; rewrite E in Hq; exact Hq).
    specialize (Hfull Hne). destruct (active (qs s k)) as [|y a] eqn:Ea; [cbn in Hfull; lia|].
    assert (Hy : In y (active (qs s k))) by (rewrite Ea; now left).
    apply (g_act s HG) in Hy as (p & Hp & _). exists y. eapply holder_can_move; exact Hp.
  - exists x. unfold can_move, cstep. rewrite Est. destruct (length (want (cs s x)) <=? i); [discriminate|]. destruct (Nat.eqb i l); [discriminate|].
    destruct (step (qs s (qat (cs s x) i)) (TryAcq x)) as [qk' o]. destruct o; discriminate.
  - exists x. unfold can_move, cstep. rewrite Est. destruct rel; discriminate.
  - exists x. unfold can_move, cstep. rewrite Est. discriminate.
  - exists x. unfold can_move, cstep. rewrite Est. destruct rel; discriminate.
Qed.

Theorem no_hold_and_wait s x k : GInv s -> In x (queued (qs s k)) -> forall j, ~ In x (active (qs s j)).
Proof.
  intros HG Hq j Ha. apply (g_wait s HG) in Hq as (l & Hl & _). apply (g_act s HG) in Ha.
  refine (holdsq_none _ j _ Ha). unfold held. now rewrite Hl.
Qed.

Theorem all_done_empty s : GInv s -> (forall x, st (cs s x) = CDone) -> forall k, active (qs s k) = [] /\ queued (qs s k) = [].
Proof.
  intros HG Hd k. split.
  - destruct (active (qs s k)) as [|y a] eqn:E; [reflexivity|]. exfalso.
    assert (Hy : In y (active (qs s k))) by (rewrite E; now left). apply (g_act s HG) in Hy.
    refine (holdsq_none _ k _ Hy). unfold held. now rewrite Hd.
  - destruct (queued (qs s k)) as [|y a] eqn:E; [reflexivity|]. exfalso.
    assert (Hy : In y (queued (qs s k))) by (rewrite E; now left). apply (g_wait s HG) in Hy as (l & Hl & _). rewrite Hd in Hl. discriminate.
Qed.

Theorem hold_means_all s x : GInv s -> st (cs s x) = CHold -> forall k, In k (want (cs s x)) -> In x (active (qs s k)).
Proof.
  intros HG Hh k Hk. apply (g_act s HG). apply In_nth_error in Hk as [p Hp]. exists p. split; [|exact Hp].
  unfold held. rewrite Hh. apply in_seq. split; [lia|]. cbn. apply nth_error_Some. congruence.
Qed.

Theorem bound_everywhere s k : GInv s -> length (active (qs s k)) <= qmax (qs s k).
Proof. intro HG. now destruct (g_q s HG k) as (_ & _ & H & _). Qed.

(* ---------- completion is not unconditional: a fair schedule under which no AcquireMulti ever returns ---------- *)
Definition sys_eq (s s' : sys) : Prop := (forall k, qs s k = qs s' k) /\ (forall x, cs s x = cs s' x).
Lemma sys_eq_refl s : sys_eq s s. Proof. split; reflexivity. Qed.

Lemma updf_ext {A} (f g : nat -> A) k v : (forall j, f j = g j) -> forall j, updf f k v j = updf g k v j.
Proof. intros H j. unfold updf. destruct (Nat.eqb j k); [reflexivity|apply H]. Qed.

Definition opt_sys_eq (a b : option sys) : Prop :=
  match a, b with Some x, Some y => sys_eq x y | None, None => True | _, _ => False end.

Lemma setst_ext s s' x st' : sys_eq s s' -> sys_eq (setst s x st') (setst s' x st').
Proof. intros [Hq Hc]. split; cbn; [exact Hq|]. rewrite Hc. now apply updf_ext. Qed.
Lemma do_acquire_ext s s' x p : sys_eq s s' -> sys_eq (do_acquire s x p) (do_acquire s' x p).
Proof.
  intros [Hq Hc]. unfold do_acquire. rewrite Hc, Hq. destruct (step (qs s' (qat (cs s' x) p)) (Acq x)) as [qk' o].
  split; cbn; now apply updf_ext.
Qed.
Lemma do_release_ext s s' x p pick st' : sys_eq s s' -> sys_eq (do_release s x p pick st') (do_release s' x p pick st').
Proof.
  intros [Hq Hc]. unfold do_release. rewrite Hc, Hq. destruct (release (qs s' (qat (cs s' x) p)) x pick) as [qk' w].
  split; cbn; [now apply updf_ext|].
  assert (H1 : forall j, updf (cs s) x (mkC (want (cs s' x)) st') j = updf (cs s') x (mkC (want (cs s' x)) st') j) by now apply updf_ext.
  destruct w as [v|]; [|exact H1]. rewrite H1. destruct (st (updf (cs s') x (mkC (want (cs s' x)) st') v)); try exact H1.
  now apply updf_ext.
Qed.
Lemma cstep_ext s s' x pick : sys_eq s s' -> opt_sys_eq (cstep s x pick) (cstep s' x pick).
Proof.
  intros He. pose proof He as [Hq Hc]. unfold cstep. rewrite Hc.
  destruct (st (cs s' x)) as [|l|l i acq|rel next| |rel|]; cbn [opt_sys_eq]; try exact I.
  - destruct (want (cs s' x)); cbn; [now apply setst_ext|now apply do_acquire_ext].
  - destruct (length (want (cs s' x)) <=? i); [cbn; now apply setst_ext|].
    destruct (Nat.eqb i l); [cbn; now apply setst_ext|]. rewrite Hq.
    destruct (step (qs s' (qat (cs s' x) i)) (TryAcq x)) as [qk' o].
    destruct o; cbn; try (now apply setst_ext). split; cbn; now apply updf_ext.
  - destruct rel; cbn; [now apply do_acquire_ext|now apply do_release_ext].
  - cbn. now apply setst_ext.
  - destruct rel; cbn; [now apply setst_ext|now apply do_release_ext].
Qed.
Lemma crun_ext : forall sch s s', sys_eq s s' -> opt_sys_eq (crun s sch) (crun s' sch).
Proof.
  induction sch as [|[x pick] sch IH]; intros s s' He; cbn [crun]; [exact He|].
  pose proof (cstep_ext s s' x pick He) as H. destruct (cstep s x pick), (cstep s' x pick); cbn in H; try contradiction; [now apply IH|exact I].
Qed.
Lemma crun_app : forall a b s, crun s (a ++ b) = match crun s a with Some s' => crun s' b | None => None end.
Proof. induction a as [|[x p] a IH]; intros b s; cbn; [reflexivity|]. destruct (cstep s x p); [apply IH|reflexivity]. Qed.

(* two throttles with one slot each; caller 0 asks for [0;1], caller 1 for [1;0] *)
Definition ll_s0 : sys := init_sys [1; 1] [[0; 1]; [1; 0]].
Definition ll_pre : list (nat * nat) := [(0, 0); (1, 0)].
Definition ll_cyc : list (nat * nat) := map (fun x => (x, 0)) [0; 0; 1; 1; 0; 0; 1; 1; 0; 1; 0; 0; 1; 1].
Definition get (o : option sys) : sys := match o with Some s => s | None => ll_s0 end.
Definition ll_s1 : sys := get (crun ll_s0 ll_pre).

Lemma ll_cycle_closed : exists s2, crun ll_s1 ll_cyc = Some s2 /\ sys_eq s2 ll_s1.
Proof.
  eexists. split; [vm_compute; reflexivity|]. split.
  - intro k. destruct k as [|[|k]]; reflexivity.
  - intro x. destruct x as [|[|x]]; reflexivity.
Qed.

Fixpoint rounds (n : nat) : list (nat * nat) := match n with O => [] | S n' => ll_cyc ++ rounds n' end.

Theorem livelock_schedule : forall n, exists s, crun ll_s0 (ll_pre ++ rounds n) = Some s /\ sys_eq s ll_s1.
Proof.
  intro n. rewrite crun_app. change (crun ll_s0 ll_pre) with (Some ll_s1).
  assert (H : forall s, sys_eq s ll_s1 -> exists s', crun s (rounds n) = Some s' /\ sys_eq s' ll_s1).
  { induction n as [|n IH]; intros s He; cbn [rounds]; [exists s; now split|].
    rewrite crun_app. destruct ll_cycle_closed as (s2 & Hr & He2).
    pose proof (crun_ext ll_cyc s ll_s1 He) as Hx. rewrite Hr in Hx. destruct (crun s ll_cyc) as [s3|]; [|contradiction].
    cbn in Hx. apply IH. destruct Hx as [Hq Hc], He2 as [Hq2 Hc2]. split; intro j; [rewrite Hq; apply Hq2|rewrite Hc; apply Hc2]. }
  apply H. apply sys_eq_refl.
Qed.
