(* Model/C17_Multi.v — any number of callers of pqueue.AcquireMulti (and of its release function) over any number of
   throttles, as a transition system whose steps are the critical sections of Model/C17_PQueue.v.  A caller follows
   the loop of AcquireMulti: blocking Acquire on the queue at position lockI of its list, TryAcquire on the other
   positions in order, on a refusal release what it holds (the cleanup order of the code) and wait on the refusing
   queue; once it holds all, the release function gives the slots back in reverse order.  Queues and callers are
   total functions of their index (callers beyond those in use are [CDone] with an empty list).  No proofs here. *)
From Coq Require Import List Arith Bool.
From Verif Require Import Model.C17_PQueue.
Import ListNotations.

Inductive cst :=
| CIdle                                  (* AcquireMulti not called yet *)
| CWait (l : nat)                        (* enqueued by the blocking Acquire on position l; holds nothing *)
| CTry (l i : nat) (acq : list nat)      (* holds the positions acq; about to look at position i *)
| CBack (rel : list nat) (next : nat)    (* failed attempt: releasing rel in this order, then Acquire on next *)
| CHold                                  (* AcquireMulti returned: holds every position *)
| CFin (rel : list nat)                  (* the returned release function is running *)
| CDone.

Record caller := mkC { want : list nat; st : cst }.
Record sys := mkS { qs : nat -> q; cs : nat -> caller }.

Definition updf {A} (f : nat -> A) (k : nat) (v : A) : nat -> A := fun j => if Nat.eqb j k then v else f j.
Definition qat (c : caller) (p : nat) : nat := nth p (want c) 0.
Definition setst (s : sys) (x : nat) (st' : cst) : sys := mkS (qs s) (updf (cs s) x (mkC (want (cs s x)) st')).

(* the blocking Acquire of caller x on its position p *)
Definition do_acquire (s : sys) (x p : nat) : sys :=
  let c := cs s x in
  let k := qat c p in
  let '(qk', o) := step (qs s k) (Acq x) in
  let st' := match o with Granted => CTry p 0 [p] | _ => CWait p end in
  mkS (updf (qs s) k qk') (updf (cs s) x (mkC (want c) st')).

(* caller x releases its position p and continues as st'; the slot may be handed to a waiter, whose Acquire returns *)
Definition do_release (s : sys) (x p pick : nat) (st' : cst) : sys :=
  let c := cs s x in
  let k := qat c p in
  let '(qk', w) := release (qs s k) x pick in
  let cs1 := updf (cs s) x (mkC (want c) st') in
  let cs2 := match w with
             | Some v => match st (cs1 v) with
                         | CWait l => updf cs1 v (mkC (want (cs1 v)) (CTry l 0 [l]))
                         | _ => cs1
                         end
             | None => cs1
             end in
  mkS (updf (qs s) k qk') cs2.

(* one step of caller x; pick = the priority function's answer if this step is a release; None = x cannot move *)
Definition cstep (s : sys) (x pick : nat) : option sys :=
  let c := cs s x in
  match st c with
  | CIdle => match want c with [] => Some (setst s x CDone) | _ => Some (do_acquire s x 0) end
  | CWait _ => None
  | CTry l i acq =>
      if length (want c) <=? i then Some (setst s x CHold)
      else if Nat.eqb i l then Some (setst s x (CTry l (S i) acq))
      else
        let k := qat c i in
        let '(qk', o) := step (qs s k) (TryAcq x) in
        match o with
        | Granted => Some (mkS (updf (qs s) k qk') (updf (cs s) x (mkC (want c) (CTry l (S i) (acq ++ [i])))))
        | _ => Some (setst s x (CBack (cleanup l i) i))
        end
  | CBack [] next => Some (do_acquire s x next)
  | CBack (p :: rel) next => Some (do_release s x p pick (CBack rel next))
  | CHold => Some (setst s x (CFin (rev (seq 0 (length (want c))))))
  | CFin [] => Some (setst s x CDone)
  | CFin (p :: rel) => Some (do_release s x p pick (CFin rel))
  | CDone => None
  end.

(* a schedule: which caller moves next, with the priority answer *)
Fixpoint crun (s : sys) (sch : list (nat * nat)) : option sys :=
  match sch with
  | [] => Some s
  | (x, pick) :: sch' => match cstep s x pick with Some s' => crun s' sch' | None => None end
  end.

(* initial system: queue k has limit maxes[k] (as NewQueue: 0 means 1); caller x wants wants[x] *)
Definition init_sys (maxes : list nat) (wants : list (list nat)) : sys :=
  mkS (fun k => init (nth k maxes 1))
      (fun x => match nth_error wants x with Some w => mkC w CIdle | None => mkC [] CDone end).

(* run caller x until it cannot move (blocked, or done) or holds everything; fuel bounds the steps *)
Fixpoint run_caller (fuel : nat) (s : sys) (x : nat) (stop_at_hold : bool) : sys :=
  match fuel with
  | O => s
  | S f =>
      match st (cs s x) with
      | CHold => if stop_at_hold then s else match cstep s x 0 with Some s' => run_caller f s' x stop_at_hold | None => s end
      | _ => match cstep s x 0 with Some s' => run_caller f s' x stop_at_hold | None => s end
      end
  end.
