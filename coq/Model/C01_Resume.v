(* Model/C01_Resume.v — internal/reghttp: the body-resume layer under a blob read.  Resp.Read counts the bytes it
   handed out (readCur) against the expected length (readMax = Req.ExpectLen, else the first Content-Length); when
   the body ends early it registers a backoff and re-issues the request through Resp.next with
   "Range: bytes=<readCur>-<readMax>", and the caller goes on reading from the new body.  One registry host (no
   mirrors; the host loop over mirrors is Model/C12_Retry.v).  The registry is an ARBITRARY function of the attempt
   number and the Range the request carries.  Executable; no proofs. *)
From Coq Require Import List ZArith Bool Arith.
From Verif Require Import Model.C01_BlobRead.
Import ListNotations.
Local Open Scope Z_scope.

Section Resume.
  Variable byte : Type.

  (* how a response body ends once its bytes are delivered: io.EOF, io.ErrUnexpectedEOF (both may be resumed), or
     any other read error (returned to the caller as it is) *)
  Inductive ending := EndEOF | EndUnexpected | EndOther.

  Inductive reply :=
  | RpFail (backoff drop : bool)      (* transport error or a status outside 2xx, already classified (C12) *)
  | RpOk (cl : option Z) (has_cr : bool) (body : list byte) (e : ending).
     (* 2xx: Content-Length when it parses, whether a Content-Range header is present, the bytes the body delivers *)

  Variable srv : nat -> option (Z * Z) -> reply.   (* attempt number, Range (first, last) if the request has one *)
  Variable limit : nat.                            (* retryLimit *)
  Variable eager : nat -> bool.                    (* does the body of attempt k report its end together with the last bytes *)

  Record rst := mkR { r_cur : Z; r_max : Z; r_retry : nat; r_att : nat; r_boff : nat; r_alive : bool;
                      r_done : bool; r_body : list byte; r_end : ending }.

  Inductive nres := NOk | NRetryLimit | NAllFailed | NFuel.

  Definition range_of (s : rst) : option (Z * Z) :=
    if (0 <? r_cur s) && (0 <? r_max s) then Some (r_cur s, r_max s) else None.

  (* Resp.next with a single host: every pass counts against retryCount; a failure that asks for a backoff bumps
     the host's counter and drops the host when the counter reaches the limit; an unexpected Content-Length on a
     fresh request is an error without flags (the same host is tried again); a ranged request answered without
     Content-Range drops the host.  Returns the Range of every request sent. *)
  Fixpoint next (fuel : nat) (s : rst) : nres * rst * list (option (Z * Z)) :=
    match fuel with
    | O => (NFuel, s, [])
    | S f =>
        if negb (r_alive s) then (NAllFailed, s, [])
        else if (limit <? r_retry s)%nat then (NRetryLimit, s, [])
        else
          let rg := range_of s in
          let s1 := mkR (r_cur s) (r_max s) (S (r_retry s)) (S (r_att s)) (r_boff s) true (r_done s) (r_body s) (r_end s) in
          let again (s2 : rst) := let '(r, s3, l) := next f s2 in (r, s3, rg :: l) in
          match srv (r_att s) rg with
          | RpFail b d =>
              let boff' := if b then S (r_boff s) else r_boff s in
              let lim := if b then (limit <=? boff')%nat else false in
              again (mkR (r_cur s) (r_max s) (S (r_retry s)) (S (r_att s)) boff' (negb (d || lim)) (r_done s) (r_body s) (r_end s))
          | RpOk cl cr body e =>
              let opened (m : Z) := (NOk, mkR (r_cur s) m (S (r_retry s)) (S (r_att s)) (r_boff s) true false body e, [rg]) in
              match (if r_cur s =? 0 then cl else None) with
              | Some c =>
                  if 0 <? r_max s then (if r_max s =? c then opened (r_max s) else again s1)
                  else opened c
              | None =>
                  match rg with
                  | Some _ => if cr then opened (r_max s)
                              else again (mkR (r_cur s) (r_max s) (S (r_retry s)) (S (r_att s)) (r_boff s) false (r_done s) (r_body s) (r_end s))
                  | None => opened (r_max s)
                  end
              end
          end
    end.

  Definition fuel_of : nat := S (S (S limit)).

  (* Client.Do: a fresh response, then next *)
  Definition open (expect : Z) (boff0 : nat) : nres * rst * list (option (Z * Z)) :=
    next fuel_of (mkR 0 expect 0 0 boff0 true false [] EndEOF).

  (* Resp.Read(p) with len(p) = n; also returns the Range of every request it had to send *)
  Definition read (s : rst) (n : nat) : list byte * uev * rst * list (option (Z * Z)) :=
    if r_done s then ([], UEOF, s, [])
    else
      let bs := firstn n (r_body s) in
      let rest := skipn n (r_body s) in
      let cur' := r_cur s + Z.of_nat (length bs) in
      let s1 := mkR cur' (r_max s) (r_retry s) (r_att s) (r_boff s) (r_alive s) false rest (r_end s) in
      let at_end := match rest with [] => (match bs with [] => true | _ => eager (r_att s) end) | _ => false end in
      if negb at_end then (bs, UMore, s1, [])
      else
        match r_end s with
        | EndOther => (bs, UErr, s1, [])
        | e =>
            let failed := (bs, match e with EndEOF => UEOF | _ => UErr end) in
            if r_max s <=? cur' then
              (* everything expected was handed out: the read is over; the body's own error is passed on as it is *)
              (bs, snd failed, mkR cur' (r_max s) (r_retry s) (r_att s) (r_boff s) (r_alive s) true [] e, [])
            else
              (* short read: backoffSet, then next *)
              let boff' := S (r_boff s) in
              let s2 := mkR cur' (r_max s) (r_retry s) (r_att s) boff' (r_alive s) false [] e in
              if (limit <=? boff')%nat
              then (fst failed, snd failed, mkR cur' (r_max s) (r_retry s) (r_att s) boff' (r_alive s) true [] e, [])
              else
                match next fuel_of s2 with
                | (NOk, s3, l) => (bs, UMore, s3, l)
                | (_, s3, l) => (fst failed, snd failed,
                                 mkR (r_cur s3) (r_max s3) (r_retry s3) (r_att s3) (r_boff s3) (r_alive s3) true [] e, l)
                end
        end.

  (* a caller that reads with the given buffer sizes until the first result that is not "more" *)
  Fixpoint drain (s : rst) (bufs : list nat) : list byte * option uev * rst * list (option (Z * Z)) :=
    match bufs with
    | [] => ([], None, s, [])
    | n :: bufs' =>
        let '(bs, e, s1, l) := read s n in
        match e with
        | UMore => let '(out, r, s2, l2) := drain s1 bufs' in (bs ++ out, r, s2, l ++ l2)
        | _ => (bs, Some e, s1, l)
        end
    end.
End Resume.

Arguments RpFail {byte}. Arguments RpOk {byte}.
Arguments mkR {byte}. Arguments r_cur {byte}. Arguments r_max {byte}. Arguments r_retry {byte}. Arguments r_att {byte}.
Arguments r_boff {byte}. Arguments r_alive {byte}. Arguments r_done {byte}. Arguments r_body {byte}. Arguments r_end {byte}.
Arguments range_of {byte}. Arguments next {byte}. Arguments open {byte}. Arguments read {byte}. Arguments drain {byte}.
