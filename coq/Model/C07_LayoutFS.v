(* Model/C07_LayoutFS.v — an OCI layout directory as a map from paths to contents, the mutating system
   calls as atomic operations, and the write discipline of scheme/ocidir as an executable recogniser: which
   operation the code may issue in which state.  A crash is a prefix of the operation list.  No proofs. *)
From Coq Require Import List Arith Bool.
Import ListNotations.

Inductive path := PLayout | PIndex | PBlob (d : nat) | PTmp (n : nat).
Inductive tok :=
| TLayout                              (* {"imageLayoutVersion":"1.0.0"} *)
| TIndex (entries : list (nat * nat))  (* index.json: (digest, tag id; 0 = untagged) *)
| TBlob (d : nat).                     (* the content whose digest is d *)

Definition path_eqb (a b : path) : bool :=
  match a, b with
  | PLayout, PLayout | PIndex, PIndex => true
  | PBlob x, PBlob y | PTmp x, PTmp y => Nat.eqb x y
  | _, _ => false
  end.

(* a file's content is the list of writes appended to it; None = no such file *)
Definition fs := path -> option (list tok).
Definition upd (f : fs) (p : path) (v : option (list tok)) : fs := fun q => if path_eqb q p then v else f q.

Inductive fsop := Create (p : path) | Write (p : path) (t : tok) | Rename (a b : path) | Unlink (p : path).

(* plain file-system semantics (no discipline): what the kernel does *)
Definition apply1 (f : fs) (o : fsop) : fs :=
  match o with
  | Create p => upd f p (Some [])                                   (* O_CREAT|O_TRUNC / O_EXCL *)
  | Write p t => match f p with Some c => upd f p (Some (c ++ [t])) | None => f end
  | Rename a b => match f a with Some c => upd (upd f b (Some c)) a None | None => f end
  | Unlink p => upd f p None
  end.
Definition apply (f : fs) (ops : list fsop) : fs := fold_left apply1 ops f.

Section Layout.
  Variable refs : nat -> list nat.      (* what a manifest names; blobs name nothing *)

  Fixpoint reach (n : nat) (d : nat) : list nat :=
    match n with O => [d] | S n' => d :: flat_map (reach n') (refs d) end.
  Definition DEPTH := 6.

  Definition tok_eqb_blob (c : option (list tok)) (d : nat) : bool :=
    match c with Some [TBlob x] => Nat.eqb x d | _ => false end.
  Definition complete (f : fs) (d : nat) : bool := tok_eqb_blob (f (PBlob d)) d.
  Definition closure_ok (f : fs) (entries : list (nat * nat)) : bool :=
    forallb (fun e => forallb (complete f) (reach DEPTH (fst e))) entries.
  Definition index_of (f : fs) : list (nat * nat) :=
    match f PIndex with Some [TIndex e] => e | _ => [] end.
  Definition memn (x : nat) (l : list nat) : bool := existsb (Nat.eqb x) l.

  (* the discipline: the only ways the code touches the named files *)
  Definition guard (f : fs) (o : fsop) : bool :=
    match o with
    | Create (PTmp n) => match f (PTmp n) with None => true | Some _ => false end
    | Write (PTmp n) _ => match f (PTmp n) with Some [] => true | _ => false end
    | Rename (PTmp n) PLayout => match f (PTmp n) with Some [TLayout] => true | _ => false end
    | Rename (PTmp n) PIndex => match f (PTmp n) with Some [TIndex e] => closure_ok f e | _ => false end
    | Rename (PTmp n) (PBlob d) => tok_eqb_blob (f (PTmp n)) d
    | Unlink (PTmp _) => true
    | Unlink (PBlob d) => negb (memn d (flat_map (fun e => reach DEPTH (fst e)) (index_of f)))
    | _ => false
    end.

  Definition step (f : fs) (o : fsop) : option fs := if guard f o then Some (apply1 f o) else None.
  Fixpoint run (f : fs) (ops : list fsop) : option fs :=
    match ops with [] => Some f | o :: r => match step f o with Some f' => run f' r | None => None end end.
  Definition accepted (f : fs) (ops : list fsop) : bool := match run f ops with Some _ => true | None => false end.
End Layout.

(* the sequences the repaired code issues (temp ids chosen by the caller) *)
Definition seq_replace (n : nat) (t : tok) (target : path) : list fsop := [Create (PTmp n); Write (PTmp n) t; Rename (PTmp n) target].
Definition seq_blob_put (n d : nat) := seq_replace n (TBlob d) (PBlob d).
Definition seq_write_index (n : nat) (e : list (nat * nat)) := seq_replace n (TIndex e) PIndex.
Definition seq_init (n : nat) := seq_replace n TLayout PLayout.
(* writeIndex as it was before the repair: the marker is truncated and rewritten in place first *)
Definition seq_write_index_old (n : nat) (e : list (nat * nat)) := [Create PLayout; Write PLayout TLayout] ++ seq_write_index n e.
