(* Model/C12_Backoff.v — internal/reghttp: the per-host backoff bookkeeping (backoffGet / backoffSet / backoffReset)
   with time as an integer (nanoseconds); the clock readings are the events' [now].  Executable; no proofs. *)
From Coq Require Import List ZArith Bool Arith.
From Verif Require Import Gen.StatusClass Model.C12_Retry.
Import ListNotations.
Local Open Scope Z_scope.

Record bst := mkB { bcur : nat; blast : option Z; breset : nat }.   (* blast = None: the zero time *)
Definition b0 : bst := mkB 0 None 0.

Definition reset_count : nat := 5.   (* backoffResetCount *)

(* delayInit << backoffCur, capped by delayMax *)
Definition delay (dinit dmax : Z) (cur : nat) : Z := Z.min (dinit * 2 ^ Z.of_nat cur) dmax.

(* backoffGet followed by the sleep in Resp.next: the new state and the time at which the request is sent *)
Definition bget (dinit dmax now : Z) (s : bst) : bst * Z :=
  match bcur s with
  | O =>
      (* a stale retry-after time is reset *)
      let l := match blast s with Some l => if l <? now then None else Some l | None => None end in
      (mkB 0 l (breset s), match l with Some t => Z.max t now | None => now end)
  | S _ =>
      let next := Z.max (match blast s with Some l => l + delay dinit dmax (bcur s) | None => now end) now in
      (mkB (bcur s) (Some next) (breset s), next)
  end.

(* backoffSet: ra = the Retry-After header in nanoseconds (0 = absent); the flag = backoff limit reached *)
Definition bset (limit : nat) (now ra : Z) (s : bst) : bst * bool :=
  if 0 <? ra then
    let nx := now + ra in
    (mkB (bcur s) (Some (match blast s with Some l => if l <? nx then nx else l | None => nx end)) (breset s), false)
  else
    let c := S (bcur s) in
    (mkB c (match blast s with None => Some now | l => l end) (breset s), (limit <=? c)%nat).

(* backoffReset after a successful request *)
Definition bok (limit : nat) (s : bst) : bst :=
  match bcur s with
  | O => s
  | S c' =>
      let r := S (breset s) in
      if (reset_count <? r)%nat || (limit <? bcur s)%nat
      then mkB c' (match c' with O => None | _ => blast s end) 0
      else mkB (bcur s) (blast s) r
  end.

Inductive bev := EGet (now : Z) | EFail (now ra : Z) | EOk.

(* run: the states after each event and, for every EGet, (send time, backoff count at that moment) *)
Fixpoint brun (dinit dmax : Z) (limit : nat) (s : bst) (es : list bev) : list (Z * nat) * bst :=
  match es with
  | [] => ([], s)
  | EGet now :: r => let '(s1, t) := bget dinit dmax now s in
                     let '(l, sf) := brun dinit dmax limit s1 r in ((t, bcur s) :: l, sf)
  | EFail now ra :: r => brun dinit dmax limit (fst (bset limit now ra s)) r
  | EOk :: r => brun dinit dmax limit (bok limit s) r
  end.

(* the counters observed at each EGet (what the hook snapshot shows when the request arrives) *)
Fixpoint bcounters (limit : nat) (s : bst) (es : list bev) : list (nat * nat) :=
  match es with
  | [] => []
  | EGet _ :: r => (bcur s, breset s) :: bcounters limit s r
  | EFail now ra :: r => bcounters limit (fst (bset limit now ra s)) r
  | EOk :: r => bcounters limit (bok limit s) r
  end.

(* ---------- sortHostsCmp with hosts that are backing off: a host whose release time lies in the future (a
   Retry-After, or a queue of delayed requests) is ordered by that time, after every host that is not waiting; the
   others keep the order of Model/C12_Retry.v ---------- *)
Record bhost := mkBH { bh : host; bh_last : Z }.   (* bh_last = 0: the zero time *)
Definition waiting (now : Z) (h : bhost) : bool := now <? bh_last h.
Definition bhost_le (now : Z) (a b : bhost) : bool :=
  if waiting now a || waiting now b then bh_last a <=? bh_last b else host_le (bh a) (bh b).
Fixpoint insert_bhost (now : Z) (h : bhost) (l : list bhost) : list bhost :=
  match l with
  | [] => [h]
  | x :: l' => if bhost_le now h x then h :: l else x :: insert_bhost now h l'
  end.
Definition sort_bhosts (now : Z) (l : list bhost) : list bhost := fold_right (insert_bhost now) [] l.
