(* C17: the `parallel` slot of one regsync step as a caller of the throttle: the step's view (does it hold a slot) next to
   the throttle's count of slots in use by this step.  A release handed to the throttle while the step holds nothing
   ("double release") takes a slot away from the count that another step is holding: the count no longer bounds the
   steps that run. *)
From Coq Require Import List Arith Bool.
Import ListNotations.

Inductive sev := SAcq | SRel.
Record sst := mkSst { held : bool; in_use : nat; lost : nat }.   (* lost: releases that freed a slot this step did not hold *)
Definition sinit := mkSst false 0 0.
Definition sstep (s : sst) (e : sev) : sst :=
  match e with
  | SAcq => mkSst true (S (in_use s)) (lost s)
  | SRel => if held s then mkSst false (pred (in_use s)) (lost s) else mkSst false (in_use s) (S (lost s))
  end.
Definition srun := fold_left sstep.

(* the discipline the generated table states: a release only while holding, an acquisition only while not holding *)
Fixpoint disciplined (h : bool) (es : list sev) : bool :=
  match es with
  | [] => true
  | SAcq :: r => negb h && disciplined true r
  | SRel :: r => h && disciplined false r
  end.
