(* Model/C06_Tags.v — scheme/ocidir index functions (indexSet, indexGet, tagDelete, ManifestDelete,
   TagList, manifestPut's index update) over a list of (digest, ref.name) entries, and the map+set they are
   meant to implement.  Executable; no proofs. *)
From Coq Require Import List String Ascii Arith Bool.
From Verif Require Import Base.StrX.
Import ListNotations.
Open Scope string_scope.

Definition dig := nat.
Record entry := mkE { e_dig : dig; e_name : string }.   (* e_name = "" : no ref.name annotation *)

(* strings.HasSuffix(name, ":"+tag) *)
Fixpoint has_suffix (s suf : string) : bool :=
  (s =? suf) || match s with EmptyString => false | String _ s' => has_suffix s' suf end.
Definition sfx (name tag : string) : bool := has_suffix name (":" ++ tag).

(* text after the last ':' (TagList) *)
Fixpoint after_last_colon (s : string) : string :=
  match s with
  | EmptyString => EmptyString
  | String c s' =>
      if existsb (fun x => Ascii.eqb x ":") (list_ascii_of_string s') then after_last_colon s'
      else if Ascii.eqb c ":" then s' else s
  end.

(* indexGet by tag: exact ref.name first, then the "<anything>:tag" fallback *)
Definition index_get_tag (idx : list entry) (t : string) : option dig :=
  match find (fun e => negb (e_name e =? "") && (e_name e =? t)) idx with
  | Some e => Some (e_dig e)
  | None => match find (fun e => negb (e_name e =? "") && sfx (e_name e) t) idx with
            | Some e => Some (e_dig e)
            | None => None
            end
  end.
Definition index_has_dig (idx : list entry) (d : dig) : bool := existsb (fun e => Nat.eqb (e_dig e) d) idx.

(* indexSet(index, r, d): t = r.Tag ("" when pushing by digest) *)
Definition set_match (t : string) (d : dig) (e : entry) : bool :=
  ((e_name e =? "") && Nat.eqb (e_dig e) d) || (negb (t =? "") && (e_name e =? t)).
Fixpoint index_set_go (t : string) (d : dig) (idx : list entry) : option (list entry) :=
  match idx with
  | [] => None
  | e :: rest =>
      if set_match t d e then Some (mkE d t :: filter (fun x => negb (set_match t d x)) rest)
      else match index_set_go t d rest with Some r => Some (e :: r) | None => None end
  end.
Definition index_set (idx : list entry) (t : string) (d : dig) : list entry :=
  match index_set_go t d idx with Some r => r | None => idx ++ [mkE d t] end.

(* tagDelete: every entry whose ref.name equals the tag is removed; error when none *)
Definition is_tag (t : string) (e : entry) : bool := negb (e_name e =? "") && (e_name e =? t).
Definition tag_delete (idx : list entry) (t : string) : option (list entry) :=
  if existsb (is_tag t) idx then Some (filter (fun e => negb (is_tag t e)) idx) else None.

(* the loop as it was written before the repair (range over the slice while deleting from it): the entry
   following a deleted one is skipped.  Kept for the refutation theorem. *)
Fixpoint tag_delete_skip (t : string) (idx : list entry) (skip : bool) : list entry :=
  match idx with
  | [] => []
  | e :: rest =>
      if skip then e :: tag_delete_skip t rest false
      else if negb (e_name e =? "") && (e_name e =? t) then tag_delete_skip t rest true
      else e :: tag_delete_skip t rest false
  end.

(* ManifestDelete: all entries with that digest go *)
Definition manifest_delete (idx : list entry) (d : dig) : list entry :=
  filter (fun e => negb (Nat.eqb (e_dig e) d)) idx.

Fixpoint insert_sorted (s : string) (l : list string) : list string :=
  match l with
  | [] => [s]
  | x :: l' => if String.leb s x then s :: l else x :: insert_sorted s l'
  end.
Definition sort_strings (l : list string) : list string := fold_right insert_sorted [] l.
Fixpoint dedup (l : list string) (seen : list string) : list string :=
  match l with
  | [] => []
  | x :: l' => if str_in x seen then dedup l' seen else x :: dedup l' (x :: seen)
  end.
Definition tag_list (idx : list entry) : list string :=
  sort_strings (dedup (map (fun e => after_last_colon (e_name e)) (filter (fun e => negb (e_name e =? "")) idx)) []).

(* ---- the layout as the client sees it: index + manifest files present ---- *)
Record layout := mkL { l_idx : list entry; l_files : list dig }.
Inductive op :=
| PutTag (t : string) (d : dig) | PutDigest (d : dig) | PutChild (d : dig)
| TagDel (t : string) | ManDel (d : dig)
| Head (t : string) | GetDig (d : dig) | List.
Inductive res := RDig (o : option dig) | RBool (b : bool) | RList (l : list string) | ROk | RErr.

Definition memd (d : dig) (l : list dig) : bool := existsb (Nat.eqb d) l.
Definition addd (d : dig) (l : list dig) : list dig := if memd d l then l else l ++ [d].

Definition step (s : layout) (o : op) : layout * res :=
  match o with
  | PutTag t d => (mkL (index_set (l_idx s) t d) (addd d (l_files s)), ROk)
  | PutDigest d => (mkL (index_set (l_idx s) "" d) (addd d (l_files s)), ROk)
  | PutChild d => (mkL (l_idx s) (addd d (l_files s)), ROk)
  | TagDel t => match tag_delete (l_idx s) t with
                | Some i => (mkL i (l_files s), ROk)
                | None => (s, RErr)
                end
  | ManDel d => if memd d (l_files s)
                then (mkL (manifest_delete (l_idx s) d) (filter (fun x => negb (Nat.eqb x d)) (l_files s)), ROk)
                else (s, RErr)
  | Head t => (s, RDig (match index_get_tag (l_idx s) t with
                        | Some d => if memd d (l_files s) then Some d else None
                        | None => None end))
  | GetDig d => (s, RBool (memd d (l_files s)))
  | List => (s, RList (tag_list (l_idx s)))
  end.

Fixpoint run (s : layout) (ops : list op) : list res :=
  match ops with [] => [] | o :: r => let '(s', x) := step s o in x :: run s' r end.

(* ---- the specification: a map from tag to digest plus a set of stored manifests ---- *)
Record spec := mkS { s_tags : list (string * dig); s_mans : list dig }.
Definition lookup (m : list (string * dig)) (t : string) : option dig :=
  match find (fun p => fst p =? t) m with Some p => Some (snd p) | None => None end.
Definition spec_step (s : spec) (o : op) : spec * res :=
  match o with
  | PutTag t d => (mkS ((t, d) :: filter (fun p => negb (fst p =? t)) (s_tags s)) (addd d (s_mans s)), ROk)
  | PutDigest d | PutChild d => (mkS (s_tags s) (addd d (s_mans s)), ROk)
  | TagDel t => match lookup (s_tags s) t with
                | Some _ => (mkS (filter (fun p => negb (fst p =? t)) (s_tags s)) (s_mans s), ROk)
                | None => (s, RErr)
                end
  | ManDel d => if memd d (s_mans s)
                then (mkS (filter (fun p => negb (Nat.eqb (snd p) d)) (s_tags s)) (filter (fun x => negb (Nat.eqb x d)) (s_mans s)), ROk)
                else (s, RErr)
  | Head t => (s, RDig (match lookup (s_tags s) t with
                        | Some d => if memd d (s_mans s) then Some d else None
                        | None => None end))
  | GetDig d => (s, RBool (memd d (s_mans s)))
  | List => (s, RList (sort_strings (dedup (map fst (s_tags s)) [])))
  end.
Fixpoint spec_run (s : spec) (ops : list op) : list res :=
  match ops with [] => [] | o :: r => let '(s', x) := spec_step s o in x :: spec_run s' r end.
