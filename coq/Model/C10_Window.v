(* C10: the cached referrer list of a subject around an update whose request is in flight.
   One client: a cache slot for the subject's list; the registry holds the list; an update u is applied by the registry
   at some moment between the client sending the request and receiving the answer.  Listings through the same client
   may run at any time: i of them while the request is in flight and not yet applied, j after the registry applied it
   but before the client's call returns.  The client drops the cache slot before sending (drop_before) and / or once
   the request is done (drop_after). *)
From Coq Require Import List Arith Bool.
Import ListNotations.

Section Window.
Variable A : Type.
Record st := mkSt { reg : list A; cache : option (list A) }.

Definition list_op (s : st) : st * list A :=
  match cache s with
  | Some l => (s, l)
  | None => (mkSt (reg s) (Some (reg s)), reg s)
  end.
Definition drop (s : st) : st := mkSt (reg s) None.
Fixpoint lists (n : nat) (s : st) : st :=
  match n with O => s | S n' => lists n' (fst (list_op s)) end.

Definition update (drop_before drop_after : bool) (u : list A -> list A) (i j : nat) (s : st) : st :=
  let s1 := if drop_before then drop s else s in
  let s2 := lists i s1 in
  let s3 := mkSt (u (reg s2)) (cache s2) in
  let s4 := lists j s3 in
  if drop_after then drop s4 else s4.
End Window.
Arguments mkSt {A}. Arguments reg {A}. Arguments cache {A}. Arguments list_op {A}. Arguments drop {A}.
Arguments lists {A}. Arguments update {A}.
