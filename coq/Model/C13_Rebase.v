(* Model/C13_Rebase.v — mod/manifest.go rebaseAddStep: an image built on an old base is moved onto a new base.  The
   three coupled sequences of an image (layer descriptors, diff_ids, history entries with their empty-layer flag) are
   checked against the old base (it must be a prefix of each) and the new base's consistency, then the old base's
   entries are cut off the front of each sequence - by the OLD base's own three lengths - and the new base's are put in
   front.  Layers, diff_ids and history payloads are abstract.  Executable; no proofs. *)
From Coq Require Import List Arith Bool.
Import ListNotations.

Section Rebase.
  Variables L D H : Type.
  Variable leqb : L -> L -> bool.   (* Descriptor.Same *)
  Variable deqb : D -> D -> bool.
  Variable heqb : H -> H -> bool.   (* author, comment, created, created_by *)

  Record img := mkImg { layers : list L; diffids : list D; history : list (bool * H) }.   (* true = empty_layer *)

  Definition nonempty (h : list (bool * H)) : nat := length (filter (fun e => negb (fst e)) h).

  Fixpoint prefix_eqb {A} (eqb : A -> A -> bool) (p l : list A) : bool :=
    match p, l with
    | [], _ => true
    | x :: p', y :: l' => eqb x y && prefix_eqb eqb p' l'
    | _ :: _, [] => false
    end.
  Definition hist_eqb (a b : bool * H) : bool := Bool.eqb (fst a) (fst b) && heqb (snd a) (snd b).

  Definition rebase (i old new : img) : option img :=
    if prefix_eqb leqb (layers old) (layers i) &&
       prefix_eqb hist_eqb (history old) (history i) &&
       Nat.eqb (length (layers old)) (nonempty (history old)) && Nat.eqb (length (layers old)) (length (diffids old)) &&
       prefix_eqb deqb (diffids old) (diffids i) &&
       Nat.eqb (length (layers new)) (nonempty (history new)) && Nat.eqb (length (diffids new)) (nonempty (history new))
    then Some (mkImg (layers new ++ skipn (length (layers old)) (layers i))
                     (diffids new ++ skipn (length (diffids old)) (diffids i))
                     (history new ++ skipn (length (history old)) (history i)))
    else None.

  (* the history cut taken from the NEW base's length (an identifier slip) *)
  Definition rebase_newlen (i old new : img) : option img :=
    match rebase i old new with
    | Some r => Some (mkImg (layers r) (diffids r) (history new ++ skipn (length (history new)) (history i)))
    | None => None
    end.

  Definition aligned (i : img) : Prop := length (layers i) = length (diffids i) /\ nonempty (history i) = length (layers i).
End Rebase.
