(* Model/C06_Loops.v — the delete-while-iterating loops of scheme/ocidir (TagDelete, ManifestDelete), transliterated
   with the slice indexing they perform:
     for i := len(l) - 1; i >= 0; i-- { if p(l[i]) { l = slices.Delete(l, i, i+1) } }
   and the forward variant (for i := 0; i < len(l); i++ ...) that skips the element following a deleted one.
   Executable; no proofs. *)
From Coq Require Import List Arith Bool.
Import ListNotations.

Fixpoint delete_at {A} (i : nat) (l : list A) : list A :=     (* slices.Delete(l, i, i+1) *)
  match i, l with
  | _, [] => []
  | O, _ :: l' => l'
  | S i', x :: l' => x :: delete_at i' l'
  end.

(* [i] = how many indices are still to be visited; the next one is i-1.  [None] = index out of range (a Go panic) *)
Fixpoint rev_loop {A} (p : A -> bool) (i : nat) (l : list A) : option (list A) :=
  match i with
  | O => Some l
  | S j => match nth_error l j with
           | Some x => rev_loop p j (if p x then delete_at j l else l)
           | None => None
           end
  end.
Definition rev_delete {A} (p : A -> bool) (l : list A) : option (list A) := rev_loop p (length l) l.

(* the forward loop re-reads len(l) on every iteration, so it simply stops early; fuel = the initial length *)
Fixpoint fwd_loop {A} (p : A -> bool) (fuel i : nat) (l : list A) : list A :=
  match fuel with
  | O => l
  | S f => match nth_error l i with
           | None => l
           | Some x => if p x then fwd_loop p f (S i) (delete_at i l) else fwd_loop p f (S i) l
           end
  end.
Definition fwd_delete {A} (p : A -> bool) (l : list A) : list A := fwd_loop p (length l) 0 l.
