(* Model/C12_Retry.v — internal/reghttp Resp.next: the host loop with its attempt counter, the status
   classification (imported from the table generated from the source), drop/retry/advance, per-host backoff
   counters, and the host ordering of sortHostsCmp.  Replies are an arbitrary list chosen by an adversary.
   Executable; no proofs. *)
From Coq Require Import List Arith ZArith Bool.
From Verif Require Import Gen.StatusClass.
Import ListNotations.

Definition hostid := nat.
Record host := mkHost { h_id : hostid; h_prio : nat; h_upstream : bool }.

(* what one attempt can yield *)
Inductive reply :=
| ROk                               (* 2xx *)
| RNet                              (* transport error *)
| RStatus (code : nat) (auth_accepts : bool) (retry_after : bool).
   (* auth_accepts: for 401, whether the auth handler accepts the challenge; retry_after: a positive
      Retry-After header accompanies the reply (no backoff counter increment then) *)

Fixpoint lookup_status (code : nat) (t : list (nat * (bool * bool * bool))) : bool * bool * bool :=
  match t with
  | [] => status_default
  | (c, f) :: t' => if Nat.eqb c code then f else lookup_status code t'
  end.

(* (backoff, dropHost, retryHost) of a reply, as the switch in Resp.next sets them *)
Definition classify (r : reply) : bool * bool * bool :=
  match r with
  | ROk => (false, false, false)
  | RNet => (true, false, false)
  | RStatus code acc _ =>
      if Nat.eqb code 401 then
        let '(_, d, rt) := lookup_status 401 status_class in
        if acc then (false, false, rt) else (false, d, false)
      else lookup_status code status_class
  end.

Record st := mkSt { hosts : list host; cur : nat; retry : nat; boff : list (hostid * nat) }.
Inductive result := Success (h : hostid) | RetryLimit | AllFailed | OutOfFuel.

Fixpoint get_boff (h : hostid) (b : list (hostid * nat)) : nat :=
  match b with [] => 0 | (k, v) :: b' => if Nat.eqb k h then v else get_boff h b' end.
Fixpoint set_boff (h : hostid) (v : nat) (b : list (hostid * nat)) : list (hostid * nat) :=
  match b with
  | [] => [(h, v)]
  | (k, w) :: b' => if Nat.eqb k h then (k, v) :: b' else (k, w) :: set_boff h v b'
  end.
Fixpoint remove_nth {A} (i : nat) (l : list A) : list A :=
  match i, l with
  | _, [] => []
  | 0, _ :: l' => l'
  | S i', x :: l' => x :: remove_nth i' l'
  end.

(* what a failed attempt at host [h] (index c) does to the loop state *)
Definition advance (limit : nat) (ignore : bool) (s : st) (c : nat) (h : host) (r : reply) : st :=
  let '(backoff, drop, retryh) := classify r in
  let no_count := match r with RStatus _ _ ra => ra | _ => false end in
  let db :=
    if backoff then
      if ignore then (true, boff s)
      else if no_count then (drop, boff s)
      else let v := S (get_boff (h_id h) (boff s)) in
           (if limit <=? v then true else drop, set_boff (h_id h) v (boff s))
    else (drop, boff s) in
  if fst db then mkSt (remove_nth c (hosts s)) c (S (retry s)) (snd db)
  else if retryh then mkSt (hosts s) c (S (retry s)) (snd db)
  else mkSt (hosts s) (S c) (S (retry s)) (snd db).

(* the loop; [limit] = retryLimit, [ignore] = req.IgnoreErr; returns the hosts attempted, in order *)
Fixpoint next_loop (fuel : nat) (limit : nat) (ignore : bool) (s : st) (replies : list reply) : list hostid * result :=
  match fuel with
  | 0 => ([], OutOfFuel)
  | S fuel' =>
      match hosts s with
      | [] => ([], AllFailed)
      | _ =>
          let c := if length (hosts s) <=? cur s then 0 else cur s in
          if limit <? retry s then ([], RetryLimit) else
          match nth_error (hosts s) c with
          | None => ([], AllFailed)
          | Some h =>
              let r := match replies with [] => ROk | r :: _ => r end in
              match r with
              | ROk => ([h_id h], Success (h_id h))
              | _ =>
                  let tr := next_loop fuel' limit ignore (advance limit ignore s c h r) (tl replies) in
                  (h_id h :: fst tr, snd tr)
              end
          end
      end
  end.

(* sortHostsCmp when no host is currently backing off: priority ascending as coded, the upstream after
   mirrors of the same priority (insertion sort = any stable sort by this key) *)
Definition host_le (a b : host) : bool :=
  if Nat.eqb (h_prio a) (h_prio b) then implb (h_upstream a) (h_upstream b) else h_prio a <? h_prio b.
Fixpoint insert_host (h : host) (l : list host) : list host :=
  match l with
  | [] => [h]
  | x :: l' => if host_le h x then h :: l else x :: insert_host h l'
  end.
Definition sort_hosts (l : list host) : list host := fold_right insert_host [] l.

(* Resp.next for a fresh request: mirrors are offered unless NoMirrors *)
Definition do_request (limit : nat) (ignore nomirrors : bool) (mirrors : list host) (up : host) (replies : list reply) :=
  let hs := sort_hosts ((if nomirrors then [] else mirrors) ++ [up]) in
  next_loop (limit + 2) limit ignore (mkSt hs 0 0 []) replies.

Definition mutating (m : nat) : bool := negb (Nat.eqb m 0).  (* 0 = GET/HEAD, 1 = anything else *)
