(* Model/C17_Resp.v — reghttp: the host-throttle slot of ONE response over its life.  Every call of Resp.next (the first
   request, a resumed read, a seek) first gives back the slot of the previous attempt - if the source does so
   ([prev_rel], generated table) - then acquires one, and leaves either holding it (success: handed to the response) or
   not (failure: given back - if every way out does so, [exits_ok], generated table).  [None] = the response asks for a
   slot while it still holds one (hold-and-wait: with all slots of the host held that way nobody can ever release).
   Executable; no proofs. *)
From Coq Require Import List Arith Bool.
Import ListNotations.

Definition next_slot (prev_rel exits_ok : bool) (held : nat) (success : bool) : option nat :=
  let held0 := if prev_rel then 0 else held in
  if Nat.ltb 0 held0 then None else Some (if success then 1 else if exits_ok then 0 else 1).

Fixpoint resp_run (prev_rel exits_ok : bool) (held : nat) (calls : list bool) : option nat :=
  match calls with
  | [] => Some held
  | c :: rest => match next_slot prev_rel exits_ok held c with
                 | Some h => resp_run prev_rel exits_ok h rest
                 | None => None
                 end
  end.
