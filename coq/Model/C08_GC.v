(* Model/C08_GC.v — scheme/ocidir/close.go: the mark phase (closeProcManifest), the sweep, and the lock table
   (GCLock / GCUnlock / refMod / Close) that keeps a collection from running under an image copy.
   Executable; no proofs. *)
From Coq Require Import List Arith Bool.
Import ListNotations.

(* what a file under blobs/ is, as far as the collector can tell *)
Inductive node :=
| NIndex (children : list nat)                      (* parses as an index / manifest list *)
| NImage (config : option nat) (layers : list nat)  (* parses as an image or artifact manifest *)
| NBlob.                                            (* anything else (layer, config, unparseable) *)

Record store := mkStore { files : list nat; content : nat -> node }.
Definition memn (x : nat) (l : list nat) : bool := existsb (Nat.eqb x) l.

(* closeProcManifest on the manifest stored under d: returns the digests it adds to the keep list *)
Fixpoint proc (fuel : nat) (s : store) (n : node) : list nat :=
  match fuel with
  | O => []
  | S f =>
      match n with
      | NIndex ch =>
          flat_map (fun c => c :: (if memn c (files s)
                                  then match content s c with
                                       | NBlob => []               (* manifestGet fails: entry kept, not followed *)
                                       | m => proc f s m
                                       end
                                  else [])) ch
      | NImage cfg layers => (match cfg with Some c => [c] | None => [] end) ++ layers
      | NBlob => []
      end
  end.
Definition mark (fuel : nat) (s : store) (index : list nat) : list nat := proc fuel s (NIndex index).
Definition sweep (fuel : nat) (s : store) (index : list nat) : list nat :=     (* what is left *)
  filter (fun d => memn d (mark fuel s index)) (files s).

(* edges the collector must respect *)
Definition edges (s : store) (d : nat) : list nat :=
  if memn d (files s) then
    match content s d with
    | NIndex ch => ch
    | NImage cfg layers => (match cfg with Some c => [c] | None => [] end) ++ layers
    | NBlob => []
    end
  else [].
Fixpoint reachn (n : nat) (s : store) (d : nat) : list nat :=
  match n with O => [d] | S n' => d :: flat_map (reachn n' s) (edges s d) end.

(* ---------- the lock table of one layout path ---------- *)
Inductive lev := CopyBegin (i : nat) | CopyWrite (i : nat) | CopyEnd (i : nat) | Close | OtherWrite.
Record lst := mkL { locks : nat; modified : bool; active : list nat; swept_under : list (list nat) }.
(* swept_under: for every collection that ran, the copies that were in progress at that moment *)
Definition lstep (gc_enabled : bool) (s : lst) (e : lev) : lst :=
  match e with
  | CopyBegin i => mkL (S (locks s)) (modified s) (i :: active s) (swept_under s)            (* GCLock *)
  | CopyWrite _ | OtherWrite => mkL (locks s) true (active s) (swept_under s)                  (* refMod *)
  | CopyEnd i => mkL (Nat.pred (locks s)) (modified s) (filter (fun x => negb (Nat.eqb x i)) (active s)) (swept_under s)  (* GCUnlock *)
  | Close => if gc_enabled && modified s && Nat.eqb (locks s) 0
             then mkL 0 false (active s) (active s :: swept_under s)   (* sweep, entry deleted *)
             else s
  end.
Definition lrun (gc : bool) (t : list lev) : lst := fold_left (lstep gc) t (mkL 0 false [] []).

(* well-formed traces: a copy begins once, writes and ends only while active *)
Fixpoint wf (act : list nat) (seen : list nat) (t : list lev) : bool :=
  match t with
  | [] => true
  | CopyBegin i :: r => negb (memn i seen) && wf (i :: act) (i :: seen) r
  | CopyWrite i :: r => memn i act && wf act seen r
  | CopyEnd i :: r => memn i act && wf (filter (fun x => negb (Nat.eqb x i)) act) seen r
  | _ :: r => wf act seen r
  end.
