(* Model/C18_Sync.v — cmd/regsync: filterList (allow then deny over an array with blanks), the per-tag decision of
   processRef (match / missing / media type / platform / check / backup / copy) and the loop over the selected tags
   of a repository.  Tags, filters and digests are numbers; whether a filter matches a tag (an anchored regular
   expression in the code) is a parameter.  A successful ImageCopy is the assignment of the tag.  Executable; no proofs. *)
From Coq Require Import List Arith Bool.
Import ListNotations.

Section Sync.
  Variable matches : nat -> nat -> bool.          (* filter, tag: the whole tag matches the expression *)

  Record allowdeny := mkAD { allow : list nat; deny : list nat }.
  (* filterList: a result array with blanks (None), compressed at the end *)
  Definition filter_list (ad : allowdeny) (l : list nat) : list nat :=
    let r0 := match allow ad with
              | [] => map Some l
              | fs => fold_left (fun r f => map (fun p => match snd p with
                                                            | Some x => Some x
                                                            | None => if matches f (fst p) then Some (fst p) else None
                                                            end) (combine l r))
                                fs (map (fun _ => None) l)
              end in
    let r1 := fold_left (fun r f => map (fun o => match o with Some x => if matches f x then None else Some x | None => None end) r) (deny ad) r0 in
    flat_map (fun o => match o with Some x => [x] | None => [] end) r1.

  Definition selected (ad : allowdeny) (t : nat) : bool :=
    (match allow ad with [] => true | fs => existsb (fun f => matches f t) fs end) && negb (existsb (fun f => matches f t) (deny ad)).

  Inductive action := ASync | ACheck | AMissing.
  Record src_tag := mkT { t_tag : nat; t_digest : nat; t_media_ok : bool; t_platform : option nat }.   (* platform: digest of the configured platform when the tag is a list *)
  Definition want (t : src_tag) : nat := match t_platform t with Some d => d | None => t_digest t end.

  Definition tmap := nat -> option nat.
  Definition upd (m : tmap) (k v : nat) : tmap := fun x => if Nat.eqb x k then Some v else m x.

  (* processRef; the options that force a re-copy of a matching image (referrers, digest tags, force recursive) do not
     change which tag names which digest and are left out *)
  Definition process_ref (act : action) (backup : option (nat -> nat)) (tgt : tmap) (t : src_tag) : tmap :=
    let cur := tgt (t_tag t) in
    if match cur with Some d => Nat.eqb d (t_digest t) | None => false end then tgt
    else if match act, cur with AMissing, Some _ => true | _, _ => false end then tgt
    else if negb (t_media_ok t) then tgt
    else if match cur, t_platform t with Some d, Some p => Nat.eqb d p | _, _ => false end then tgt
    else match act with
         | ACheck => tgt
         | _ =>
             let tgt1 := match cur, backup with Some d, Some b => upd tgt (b (t_tag t)) d | _, _ => tgt end in
             upd tgt1 (t_tag t) (want t)
         end.

  Definition memb (x : nat) (l : list nat) : bool := existsb (Nat.eqb x) l.
  Definition sync_repo (act : action) (backup : option (nat -> nat)) (ad : allowdeny) (src : list src_tag) (tgt : tmap) : tmap :=
    fold_left (process_ref act backup) (filter (fun t => memb (t_tag t) (filter_list ad (map t_tag src))) src) tgt.

End Sync.
