(* Model/C12_Reissue.v — one logical request over its whole life: the first pass of Resp.next and every re-issue
   (Resp.Read re-running next after a body that ended early).  Each pass sees whatever host list, order, position and
   backoff counters the moment gives (hosts are re-sorted, mirrors may have been dropped or be backing off) and any
   replies; what the passes share is the request's retry count.  Executable; no proofs. *)
From Coq Require Import List Arith Bool.
From Verif Require Import Model.C12_Retry.
Import ListNotations.

Record pass := mkPass { p_hosts : list host; p_cur : nat; p_boff : list (hostid * nat); p_replies : list reply }.

Fixpoint reissues (fuel limit : nat) (ignore : bool) (retry0 : nat) (passes : list pass) : list hostid :=
  match passes with
  | [] => []
  | p :: rest =>
      let a := fst (next_loop fuel limit ignore (mkSt (p_hosts p) (p_cur p) retry0 (p_boff p)) (p_replies p)) in
      a ++ reissues fuel limit ignore (retry0 + length a) rest
  end.
