(* Model/C15_Ref.v — executable model of types/ref: New (the anchored regular expressions refRE /
   ocidirRE / schemeRE written as hand recognisers), CommonName, SetTag, SetDigest, AddDigest.
   Strings are [list ascii] here (conversion from [string] at the boundary). No proofs. *)
From Coq Require Import List String Ascii Bool NArith Arith.
From Verif Require Import Base.StrX.
Import ListNotations.
Close Scope string_scope.
Open Scope list_scope.
Open Scope nat_scope.

Definition str := list ascii.
Definition of_string := list_ascii_of_string.
Definition to_string := string_of_list_ascii.

Definition c_alnum (c : ascii) : bool := is_digit c || is_lower c || is_upper c.
Definition c_lownum (c : ascii) : bool := is_digit c || is_lower c.
Definition c_alpha (c : ascii) : bool := is_lower c || is_upper c.
Definition c_is (x : ascii) (c : ascii) : bool := Ascii.eqb c x.
Definition c_hostmid (c : ascii) : bool := c_alnum c || c_is "-" c.
Definition c_xdigit (c : ascii) : bool :=
  let n := N_of_ascii c in is_digit c || ((97 <=? n) && (n <=? 102))%N || ((65 <=? n) && (n <=? 70))%N.

Fixpoint alln (p : ascii -> bool) (s : str) : bool :=
  match s with [] => true | c :: s' => p c && alln p s' end.

Definition lastc (s : str) : option ascii := List.last (map Some s) None.

(* hostPartS  [a-zA-Z0-9](?:[a-zA-Z0-9-]*[a-zA-Z0-9])? *)
Definition host_part (s : str) : bool :=
  match s with
  | [] => false
  | c :: _ => c_alnum c && alln c_hostmid s && match lastc s with Some l => c_alnum l | None => false end
  end.

(* split a str on a separator character: like strings.Split, never empty *)
Fixpoint splitc (sep : ascii) (s : str) : list str :=
  match s with
  | [] => [[]]
  | c :: s' =>
      if Ascii.eqb c sep then [] :: splitc sep s'
      else match splitc sep s' with
           | h :: t => (c :: h) :: t
           | [] => [[c]]
           end
  end.

Fixpoint joinc (sep : ascii) (l : list str) : str :=
  match l with
  | [] => []
  | [x] => x
  | x :: l' => x ++ sep :: joinc sep l'
  end.

(* cut at the first occurrence of c *)
Fixpoint cut (c : ascii) (s : str) : option (str * str) :=
  match s with
  | [] => None
  | x :: s' => if Ascii.eqb x c then Some ([], s')
               else match cut c s' with Some (a, b) => Some (x :: a, b) | None => None end
  end.

Definition nonempty_digits (s : str) : bool := match s with [] => false | _ => alln is_digit s end.

(* labels "a.b.c" with an optional trailing dot: returns (labels all host_part, count, trailing dot) *)
Definition dotted (s : str) : option (nat * bool) :=
  let ls := splitc "." s in
  let '(ls', trailing) :=
    match rev ls with
    | [] :: r => (rev r, true)       (* trailing dot *)
    | _ => (ls, false)
    end in
  match ls' with
  | [] => None
  | _ => if forallb host_part ls' then Some (List.length ls', trailing) else None
  end.

(* hostDomainS: hostPart ( (.hostPart)+ .? | . ) *)
Definition host_domain (s : str) : bool :=
  match dotted s with
  | Some (n, trailing) => (2 <=? n) || trailing
  | None => false
  end.

(* hostPortS: hostPart(.hostPart)* .? : [0-9]+ *)
Definition host_port (s : str) : bool :=
  match cut ":" s with
  | Some (h, p) => nonempty_digits p && match dotted h with Some _ => true | None => false end
  | None => false
  end.

(* hostUpperS, first alternative: [a-zA-Z0-9]*[A-Z][a-zA-Z0-9-]*[a-zA-Z0-9] — scanning for the
   position of the distinguished upper-case letter *)
Fixpoint upper_a (s : str) : bool :=
  match s with
  | [] => false
  | c :: s' =>
      (is_upper c && match s' with [] => false | _ => alln c_hostmid s' && match lastc s' with Some l => c_alnum l | None => false end end)
      || (c_alnum c && upper_a s')
  end.
(* second alternative: [a-zA-Z0-9][a-zA-Z0-9-]*[A-Z][a-zA-Z0-9]* *)
Fixpoint upper_b_tail (s : str) : bool :=   (* [a-zA-Z0-9-]*[A-Z][a-zA-Z0-9]* *)
  match s with
  | [] => false
  | c :: s' => (is_upper c && alln c_alnum s') || (c_hostmid c && upper_b_tail s')
  end.
Definition upper_b (s : str) : bool :=
  match s with c :: s' => c_alnum c && upper_b_tail s' | [] => false end.
Definition host_upper (s : str) : bool := upper_a s || upper_b s.

Definition s_localhost : str := of_string "localhost".
Definition str_eqb (a b : str) : bool := list_eqb Ascii.eqb a b.

Definition host_localhost (s : str) : bool :=
  str_eqb s s_localhost ||
  match cut ":" s with Some (h, p) => str_eqb h s_localhost && nonempty_digits p | None => false end.

(* registryS *)
Definition registry_ok (s : str) : bool := host_domain s || host_port s || host_upper s || host_localhost s.

(* repoPartS  [a-z0-9]+(?:(?:\.|_|__|-+)[a-z0-9]+)*  as a small automaton:
   state 0 = expecting an alnum (start or after a separator), 1 = in alnum run,
   2 = after one "_", 3 = after "." or "__", 4 = in a run of "-" *)
Fixpoint repo_part_st (st : nat) (s : str) : bool :=
  match s with
  | [] => Nat.eqb st 1
  | c :: s' =>
      if c_lownum c then repo_part_st 1 s'
      else if c_is "." c then (Nat.eqb st 1) && repo_part_st 3 s'
      else if c_is "_" c then
        if Nat.eqb st 1 then repo_part_st 2 s' else if Nat.eqb st 2 then repo_part_st 3 s' else false
      else if c_is "-" c then ((Nat.eqb st 1) || (Nat.eqb st 4)) && repo_part_st 4 s'
      else false
  end.
Definition repo_part (s : str) : bool := repo_part_st 0 s.

(* tagS  [a-zA-Z0-9_][a-zA-Z0-9._-]{0,127} *)
Definition c_tagrest (c : ascii) : bool := c_alnum c || c_is "." c || c_is "_" c || c_is "-" c.
Definition tag_ok (s : str) : bool :=
  match s with
  | [] => false
  | c :: s' => (c_alnum c || c_is "_" c) && alln c_tagrest s' && (List.length s' <=? 127)
  end.

(* digestS  [A-Za-z][A-Za-z0-9]*(?:[-_+.][A-Za-z][A-Za-z0-9]* )*:[[:xdigit:]]{32,} *)
Definition c_algsep (c : ascii) : bool := c_is "-" c || c_is "_" c || c_is "+" c || c_is "." c.
Fixpoint algo_st (st : nat) (s : str) : bool :=   (* 0 = expecting a letter, 1 = inside a component *)
  match s with
  | [] => Nat.eqb st 1
  | c :: s' =>
      if Nat.eqb st 0 then c_alpha c && algo_st 1 s'
      else if c_alnum c then algo_st 1 s'
      else c_algsep c && algo_st 0 s'
  end.
Definition digest_ok (s : str) : bool :=
  match cut ":" s with
  | Some (a, h) => algo_st 0 a && alln c_xdigit h && (32 <=? List.length h)
  | None => false
  end.

(* pathS  [/a-zA-Z0-9_\-. ~\+]+ *)
Definition c_path (c : ascii) : bool :=
  c_alnum c || c_is "/" c || c_is "_" c || c_is "-" c || c_is "." c || c_is " " c || c_is "~" c || c_is "+" c.
Definition path_ok (s : str) : bool := match s with [] => false | _ => alln c_path s end.

Record ref := mkRef { scheme : str; registry : str; repository : str; tag : str; digest : str; path : str }.

(* schemeRE ^([a-z]+)://(.+)$   ("." does not match a newline) *)
Definition s_sep : str := of_string "://".
Fixpoint strip_prefix (p s : str) : option str :=
  match p, s with
  | [], _ => Some s
  | a :: p', b :: s' => if Ascii.eqb a b then strip_prefix p' s' else None
  | _, [] => None
  end.
Fixpoint take_lower (s : str) : str * str :=
  match s with
  | c :: s' => if is_lower c then let '(a, b) := take_lower s' in (c :: a, b) else ([], s)
  | [] => ([], [])
  end.
Definition c_nl (c : ascii) : bool := c_is "010" c.
Definition split_scheme (s : str) : str * str :=
  let '(sc, rest) := take_lower s in
  match sc with
  | [] => ([], s)
  | _ => match strip_prefix s_sep rest with
         | Some tail => match tail with
                        | [] => ([], s)
                        | _ => if existsb c_nl tail then ([], s) else (sc, tail)
                        end
         | None => ([], s)
         end
  end.

(* the (?::tag)?(?:@digest)?$ suffix shared by refRE and ocidirRE: input is the text after the name
   part, which starts at the first ':' or '@' *)
Definition parse_suffix_at (lft : str) (dg : option str) : option (str * str * str) :=
  (* left = name[:tag] with no '@'; dg = text after '@' *)
  let dgv := match dg with Some d => d | None => [] end in
  if match dg with Some d => negb (digest_ok d) | None => false end then None else
  match cut ":" lft with
  | Some (name, tg) => if tag_ok tg then Some (name, tg, dgv) else None
  | None => Some (lft, [], dgv)
  end.

Definition s_docker := of_string "docker.io".
Definition s_docker_dns := of_string "registry-1.docker.io".
Definition s_docker_legacy := of_string "index.docker.io".
Definition s_library := of_string "library".
Definition s_latest := of_string "latest".
Definition s_reg := of_string "reg".
Definition s_ocidir := of_string "ocidir".
Definition s_ocifile := of_string "ocifile".

(* refRE on the tail (scheme ""), followed by the normalisations of New *)
Definition parse_reg (tail : str) : option ref :=
  let '(lft, dg) := match cut "@" tail with Some (l, d) => (l, Some d) | None => (tail, None) end in
  if match dg with Some d => negb (digest_ok d) | None => false end then None else
  let dgv := match dg with Some d => d | None => [] end in
  let comps := splitc "/" lft in
  let '(reg, rcomps) :=
    match comps with
    | c0 :: (_ :: _) as rest => if registry_ok c0 then (c0, rest) else ([], comps)
    | _ => ([], comps)
    end in
  (* the last repository component may carry ":tag" *)
  let lastcomp := List.last rcomps [] in
  let init := removelast rcomps in
  match (match cut ":" lastcomp with
         | Some (n, tg) => if tag_ok tg then Some (n, tg) else None
         | None => Some (lastcomp, [])
         end) with
  | None => None
  | Some (lname, tg) =>
      let rc := init ++ [lname] in
      if negb (forallb repo_part rc) then None else
      (* normalisation *)
      let '(reg, rc) := match reg, rc with
                        | [], c0 :: rest => if str_eqb c0 s_localhost then (c0, rest) else (reg, rc)
                        | _, _ => (reg, rc)
                        end in
      let reg := if match reg with [] => true | _ => false end || str_eqb reg s_docker_dns || str_eqb reg s_docker_legacy
                 then s_docker else reg in
      let repo := joinc "/" rc in
      let repo := if str_eqb reg s_docker && negb (existsb (c_is "/") repo) then s_library ++ "/"%char :: repo else repo in
      let tg := match tg, dgv with [], [] => s_latest | _, _ => tg end in
      match rc with
      | [] => None
      | _ => if match joinc "/" rc with [] => true | _ => false end then None
             else Some (mkRef s_reg reg repo tg dgv [])
      end
  end.

(* ocidirRE *)
Definition parse_oci (sc tail : str) : option ref :=
  let '(lft, dg) := match cut "@" tail with Some (l, d) => (l, Some d) | None => (tail, None) end in
  match parse_suffix_at lft dg with
  | Some (p, tg, dgv) => if path_ok p then Some (mkRef sc [] [] tg dgv p) else None
  | None => None
  end.

Definition parse (s : str) : option ref :=
  let '(sc, tail) := split_scheme s in
  match sc with
  | [] => parse_reg tail
  | _ => if str_eqb sc s_ocidir || str_eqb sc s_ocifile then parse_oci sc tail else None
  end.

(* CommonName *)
Definition print (r : ref) : str :=
  if str_eqb (scheme r) s_reg then
    match repository r with
    | [] => []
    | _ =>
      (match registry r with [] => [] | g => g ++ ["/"%char] end) ++ repository r ++
      (match tag r with [] => [] | t => ":"%char :: t end) ++
      (match digest r with [] => [] | d => "@"%char :: d end)
    end
  else if str_eqb (scheme r) s_ocidir || str_eqb (scheme r) s_ocifile then
    scheme r ++ s_sep ++ path r ++
      (match tag r with [] => [] | t => ":"%char :: t end) ++
      (match digest r with [] => [] | d => "@"%char :: d end)
  else [].

Definition set_tag (r : ref) (t : str) : ref := mkRef (scheme r) (registry r) (repository r) t [] (path r).
Definition set_digest (r : ref) (d : str) : ref := mkRef (scheme r) (registry r) (repository r) [] d (path r).
Definition add_digest (r : ref) (d : str) : ref := mkRef (scheme r) (registry r) (repository r) (tag r) d (path r).
