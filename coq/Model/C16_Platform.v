(* Model/C16_Platform.v — executable model of types/platform (normalize, Parse, String,
   Compatible, Match, Better, semverCmp, variantVer ...) and of the platform scan in
   types/descriptor.DescriptorListSearch.  Transliteration; no proofs here. *)
From Coq Require Import List String Ascii ZArith Bool.
From Verif Require Import Base.StrX.
Import ListNotations.
Open Scope string_scope.

Record plat := mkPlat {
  arch : string; os : string; osver : string; osfeat : list string; variant : string; feat : list string }.

Definition zero_plat : plat := mkPlat "" "" "" [] "" [].

Definition set_os (p : plat) v := mkPlat (arch p) v (osver p) (osfeat p) (variant p) (feat p).
Definition set_arch (p : plat) v := mkPlat v (os p) (osver p) (osfeat p) (variant p) (feat p).
Definition set_variant (p : plat) v := mkPlat (arch p) (os p) (osver p) (osfeat p) v (feat p).
Definition set_osver (p : plat) v := mkPlat (arch p) (os p) v (osfeat p) (variant p) (feat p).

(* platform.go: func (p *Platform) normalize() — the OS switch and the architecture switch
   touch disjoint fields; written as two functions so that idempotence is easy to state *)
Definition norm_os (o : string) : string := if o =? "macos" then "darwin" else o.
Definition norm_av (a v : string) : string * string :=
  if a =? "i386" then ("386", "")
  else if (a =? "x86_64") || (a =? "x86-64") || (a =? "amd64") then
    ("amd64", if v =? "v1" then "" else v)
  else if (a =? "aarch64") || (a =? "arm64") then
    ("arm64", if (v =? "8") || (v =? "v8") then "" else v)
  else if a =? "armhf" then ("arm", "v7")
  else if a =? "armel" then ("arm", "v6")
  else if a =? "arm" then
    ("arm", if (v =? "") || (v =? "7") then "v7"
            else if (v =? "5") || (v =? "6") || (v =? "8") then "v" ++ v else v)
  else (a, v).
Definition normalize (p : plat) : plat :=
  let av := norm_av (arch p) (variant p) in
  mkPlat (fst av) (norm_os (os p)) (osver p) (osfeat p) (snd av) (feat p).

(* compare.go: variantVer *)
Definition variant_ver (v : string) : Z :=
  match atoi (trim_prefix "v" v) with Some n => n | None => 0%Z end.

(* compare.go: variantCompatible *)
Definition variant_compatible (host target : string) : bool :=
  let vh := variant_ver host in
  let vt := variant_ver target in
  (vh >=? vt)%Z || ((vh =? 1)%Z && (target =? "")) || ((host =? "") && (vt =? 1)%Z).

(* compare.go: osVerSemver *)
Definition osver_semver (v : string) : string :=
  let parts := split "." v in
  if Nat.ltb (List.length parts) 4 then v else join "." (firstn 3 parts).

Definition osver_compatible (host target : string) : bool :=
  if host =? "" then true else osver_semver host =? osver_semver target.

(* compare.go: semverCmp on the already split parts: -1 / 0 / 1 *)
Fixpoint semver_cmp_l (a b : list string) : Z :=
  match a with
  | [] => 0
  | x :: a' =>
      match b with
      | [] => 1
      | y :: b' =>
          match atoi x, atoi y with
          | None, None => 0
          | None, Some _ => -1
          | Some _, None => 1
          | Some i, Some j =>
              if (i <? j)%Z then -1 else if (i >? j)%Z then 1 else semver_cmp_l a' b'
          end
      end
  end%Z.
Definition semver_cmp (a b : string) : Z := semver_cmp_l (split "." a) (split "." b).

Definition str_slice_eq (a b : list string) : bool := list_eqb String.eqb a b.

(* compare.go: (c *compare) Compatible, with c.host already normalized by NewCompare *)
Definition compatible_n (h : plat) (target : plat) : bool :=
  let t := normalize target in
  if os h =? "linux" then
    (os h =? os t) && (arch h =? arch t) && variant_compatible (variant h) (variant t)
  else if os h =? "windows" then
    if os t =? "windows" then
      (arch h =? arch t) && variant_compatible (variant h) (variant t) && osver_compatible (osver h) (osver t)
    else if os t =? "linux" then
      (arch h =? arch t) && variant_compatible (variant h) (variant t)
    else false
  else if os h =? "darwin" then
    ((os t =? "darwin") || (os t =? "linux")) && (arch h =? arch t) && variant_compatible (variant h) (variant t)
  else
    (os h =? os t) && (arch h =? arch t) && variant_compatible (variant h) (variant t) &&
    (osver h =? osver t) && str_slice_eq (osfeat h) (osfeat t) && str_slice_eq (feat h) (feat t).

(* package-level Compatible(host, target) *)
Definition compatible (host target : plat) : bool := compatible_n (normalize host) target.

(* compare.go: (c *compare) Match *)
Definition match_n (h : plat) (target : plat) : bool :=
  let t := normalize target in
  if negb (os h =? os t) then false
  else if os h =? "linux" then (arch h =? arch t) && (variant h =? variant t)
  else if os h =? "windows" then
    (arch h =? arch t) && (variant h =? variant t) && (osver_semver (osver h) =? osver_semver (osver t))
  else
    (arch h =? arch t) && (variant h =? variant t) && (osver h =? osver t) &&
    str_slice_eq (osfeat h) (osfeat t) && str_slice_eq (feat h) (feat t).
Definition match_ (a b : plat) : bool := match_n (normalize a) b.

(* compare.go: (c *compare) Better(target, prev); h = c.host (normalized).
   Note Compatible(c.host, target) re-normalizes the host through NewCompare. *)
Definition better_n (h : plat) (target prev : plat) : bool :=
  if negb (compatible h target) then false else
  let t := normalize target in
  let p := normalize prev in
  let k_os : option bool :=
    if negb (os p =? os t) then
      if os t =? os h then Some true else if os p =? os h then Some false else None
    else None in
  match k_os with Some b => b | None =>
  let k_arch : option bool :=
    if negb (arch p =? arch t) then
      if arch t =? arch h then Some true else if arch p =? arch h then Some false else None
    else None in
  match k_arch with Some b => b | None =>
  let k_var : option bool :=
    if negb (variant p =? variant t) then
      if variant t =? variant h then Some true else if variant p =? variant h then Some false
      else
        let pv := variant_ver (variant p) in
        let tv := variant_ver (variant t) in
        if (tv >? pv)%Z then Some true else if (tv <? pv)%Z then Some false else None
    else None in
  match k_var with Some b => b | None =>
  if negb (osver p =? osver t) then
    if osver t =? osver h then true else if osver p =? osver h then false
    else
      let c := semver_cmp (osver p) (osver t) in
      if negb (c =? 0)%Z then (c <? 0)%Z else false
  else false
  end end end.

(* descriptor.go: the platform part of DescriptorListSearch.  An entry is [None] when the
   descriptor has no platform.  State = (found index, retPlat).  Returns the index.  The first
   compatible entry is taken as it is; later entries replace it when Better says so. *)
Fixpoint search_loop (h : plat) (dl : list (option plat)) (i : nat) (ret : option nat) (retPlat : plat) : option nat :=
  match dl with
  | [] => ret
  | None :: dl' => search_loop h dl' (S i) ret retPlat
  | Some d :: dl' =>
      match ret with
      | None => if compatible h d then search_loop h dl' (S i) (Some i) d
                else search_loop h dl' (S i) ret retPlat
      | Some _ => if better_n h d retPlat then search_loop h dl' (S i) (Some i) d
                  else search_loop h dl' (S i) ret retPlat
      end
  end.
Definition search (host : plat) (dl : list (option plat)) : option nat :=
  search_loop (normalize host) dl 0 None zero_plat.

(* the scan as it was before the repair (fix: commit in /repo, known-findings.txt): every entry,
   the first included, had to be Better than the previous best, which starts as the zero platform *)
Fixpoint search_loop_old (h : plat) (dl : list (option plat)) (i : nat) (ret : option nat) (retPlat : plat) : option nat :=
  match dl with
  | [] => ret
  | None :: dl' => search_loop_old h dl' (S i) ret retPlat
  | Some d :: dl' =>
      if better_n h d retPlat then search_loop_old h dl' (S i) (Some i) d
      else search_loop_old h dl' (S i) ret retPlat
  end.
Definition search_old (host : plat) (dl : list (option plat)) : option nat :=
  search_loop_old (normalize host) dl 0 None zero_plat.

(* ---- Parse / String ---- *)
Definition part_char (c : ascii) : bool :=
  is_digit c || is_lower c || is_upper c || Ascii.eqb c "_" || Ascii.eqb c "-".
Definition part_ok (s : string) : bool := negb (s =? "") && all_chars part_char s.

Definition known_arch (a : string) : bool :=
  str_in a ["386"; "amd64"; "i386"; "x86_64"; "x86-64"; "arm"; "armhf"; "armel"; "arm64"; "aarch64";
            "mips"; "mips64"; "mips64le"; "ppc"; "ppc64"; "ppc64le"; "loong64"; "riscv"; "riscv64";
            "s390"; "s390x"; "sparc"; "sparc64"; "wasm"].

(* path.Join(os, arch, variant) for components made of part characters: empty elements are
   dropped, the rest joined by "/" (Clean is the identity on such strings) *)
Definition print (p : plat) : string :=
  let p := normalize p in
  if os p =? "" then "unknown"
  else join "/" (filter (fun s => negb (s =? "")) [os p; arch p; variant p]).

(* platform.Parse for strings without the ",key=value" argument part; [loc] = Local() *)
Definition parse (loc : plat) (s : string) : option plat :=
  let parts := split "/" s in
  if negb (forallb part_ok parts) then None else
  let parts := map to_lower parts in
  let n := List.length parts in
  let p := zero_plat in
  let p := match parts with
           | [a] => if known_arch a then set_arch p a else set_os p a
           | a :: _ => set_os p a
           | [] => p
           end in
  let p := match parts with _ :: a :: _ => set_arch p a | _ => p end in
  let p := match parts with _ :: _ :: v :: _ => set_variant p v | _ => p end in
  let p := if s =? "local" then loc
           else if (os p =? "local") || (os p =? "") then set_os p (os loc) else p in
  let p := normalize p in
  let p :=
    if ((os p =? "linux") || (os p =? "darwin") || (os p =? "windows")) &&
       compatible (set_os zero_plat (os loc)) (set_os zero_plat (os p)) && Nat.ltb n 2 then
      let p := if arch p =? "" then set_arch p (arch loc) else p in
      if (arch p =? arch loc) && (variant p =? "") then set_variant p (variant loc) else p
    else p in
  let p :=
    if (os p =? "windows") && (os p =? os loc) && (arch p =? arch loc) &&
       variant_compatible (variant loc) (variant p) && (osver p =? "") then set_osver p (osver loc)
    else p in
  Some p.
