(* Model/C05_Upload.v — scheme/reg blobPutUploadChunked: the chunk loop with its four offsets (bufStart,
   len(buf), chunkStart, chunkSize), finalChunk, the read-ahead loop, the re-slice when the registry
   acknowledges less than was sent, the chunkStart/bufStart abort, the three response branches and the
   closing digest/size checks — against a registry session that an adversary steers within the
   distribution spec.  Bytes are N; the digest is "the bytes themselves" here (H abstract in the proofs).
   Executable; no proofs. *)
From Coq Require Import List ZArith NArith Bool Arith.
Import ListNotations.
Open Scope Z_scope.

Definition bytes := list N.
Definition zlen (l : bytes) : Z := Z.of_nat (length l).
Fixpoint beq (a b : bytes) : bool :=
  match a, b with
  | [], [] => true
  | x :: a', y :: b' => N.eqb x y && beq a' b'
  | _, _ => false
  end.

(* what the registry does with one PATCH it receives in order (Content-Range start = bytes held) *)
Inductive sact :=
| SAccept            (* 202, Range 0-(held-1), Location *)
| SEarly201          (* 201 without Range: the client adds the chunk size itself *)
| SDrop (k : nat)    (* the connection breaks after the registry stored k bytes of the body; reghttp re-sends
                        the PATCH, which the registry answers 416 + Range + Location (or 202 when k = 0) *)
| SReloc.            (* 202 with a relocated session URL (no effect on offsets) *)

Record cst := mkC {
  rest : bytes;         (* not yet read from the caller's stream *)
  digested : bytes;     (* everything read so far (what the digester saw) *)
  bufStart : Z; buf : bytes; bcap : nat;
  chunkStart : Z; chunkSize : Z; final : bool;
  retry : nat;
  sdata : bytes;        (* what the registry session holds *)
  script : list sact;
  log : list (Z * Z)    (* PATCH requests sent: (range start, body length), most recent first *)
}.

Inductive outcome := Running | Done | EMismatchOffsets | ERetry | EDigest | ESize | OutOfFuel.

(* io.ReadFull into a buffer of capacity bcap *)
Definition read_full (c : cst) : cst :=
  let n := Nat.min (bcap c) (length (rest c)) in
  let got := firstn n (rest c) in
  mkC (skipn n (rest c)) (digested c ++ got) (bufStart c + zlen (buf c)) got (bcap c)
      (chunkStart c) (Z.of_nat n) (if Nat.ltb n (bcap c) then true else final c) (retry c) (sdata c) (script c) (log c).

(* for chunkStart >= bufStart+len(buf) && !finalChunk { ... } *)
Fixpoint read_ahead (fuel : nat) (c : cst) : cst :=
  match fuel with
  | O => c
  | S f => if (chunkStart c >=? bufStart c + zlen (buf c)) && negb (final c) then read_ahead f (read_full c) else c
  end.

Definition reslice (c : cst) : cst :=
  if (chunkStart c >? bufStart c) && (chunkStart c <? bufStart c + zlen (buf c)) then
    let k := Z.to_nat (chunkStart c - bufStart c) in
    let b := skipn k (buf c) in
    (* bufBytes = bufBytes[k:] also shrinks the slice's capacity: later reads fill at most cap-k bytes *)
    mkC (rest c) (digested c) (chunkStart c) b (bcap c - k)%nat (chunkStart c) (zlen b) (final c) (retry c) (sdata c) (script c) (log c)
  else c.

Definition retry_limit : nat := 10.   (* retryLimit := 10 in blobPutUploadChunked *)

(* the registry's reaction to PATCH(start, body) and what the client learns: new chunkStart *)
Definition patch (c : cst) : cst * outcome :=
  let body := buf c in
  let start := chunkStart c in
  let lg := (start, zlen body) :: log c in
  if negb (start =? zlen (sdata c)) then
    (* out of order: 416 with the current Range and Location: the "recoverable" branch *)
    (mkC (rest c) (digested c) (bufStart c) (buf c) (bcap c) (zlen (sdata c)) (chunkSize c) (final c) (S (retry c)) (sdata c) (script c) lg,
     if Nat.ltb retry_limit (S (retry c)) then ERetry else Running)
  else
  match script c with
  | [] | SAccept :: _ | SReloc :: _ =>
      let sd := sdata c ++ body in
      (mkC (rest c) (digested c) (bufStart c) (buf c) (bcap c) (zlen sd) (chunkSize c) (final c) (Nat.pred (retry c)) sd (tl (script c)) lg, Running)
  | SEarly201 :: s' =>
      let sd := sdata c ++ body in
      (mkC (rest c) (digested c) (bufStart c) (buf c) (bcap c) (start + chunkSize c) (chunkSize c) (final c) (retry c) sd s' lg, Running)
  | SDrop k :: s' =>
      let kept := firstn k body in
      let sd := sdata c ++ kept in
      match kept with
      | [] => (* nothing stored: the re-sent PATCH is in order and accepted *)
          let sd2 := sd ++ body in
          (mkC (rest c) (digested c) (bufStart c) (buf c) (bcap c) (zlen sd2) (chunkSize c) (final c) (Nat.pred (retry c)) sd2 s' ((start, zlen body) :: lg), Running)
      | _ => (* the re-sent PATCH is out of order: 416 + Range *)
          (mkC (rest c) (digested c) (bufStart c) (buf c) (bcap c) (zlen sd) (chunkSize c) (final c) (S (retry c)) sd s' ((start, zlen body) :: lg),
           if Nat.ltb retry_limit (S (retry c)) then ERetry else Running)
      end
  end.

(* everything that was read is acknowledged and the stream has ended: nothing is left to send *)
Definition settle (c : cst) : cst :=
  if final c && (chunkStart c >=? bufStart c + zlen (buf c)) then
    mkC (rest c) (digested c) (bufStart c) (buf c) (bcap c) (chunkStart c) 0 (final c) (retry c) (sdata c) (script c) (log c)
  else c.

(* one iteration of the outer loop *)
Definition iterate (c : cst) : cst * outcome :=
  let c := read_ahead (S (length (rest c))) c in
  let c := reslice c in
  let c := settle c in
  if (chunkSize c >? 0) && negb (chunkStart c =? bufStart c) then (c, EMismatchOffsets)
  else if chunkSize c >? 0 then patch c else (c, Running).

Definition continue (c : cst) : bool := negb (final c) || (chunkStart c <? bufStart c + zlen (buf c)).

Fixpoint loop (fuel : nat) (c : cst) : cst * outcome :=
  match fuel with
  | O => (c, OutOfFuel)
  | S f =>
      if continue c then
        let '(c', o) := iterate c in
        match o with Running => loop f c' | _ => (c', o) end
      else (c, Done)
  end.

(* descriptor: declared digest (None = not valid) given as the bytes it names, declared size (0 = unknown) *)
Definition finish (declared : option bytes) (dsize : Z) (c : cst) : outcome :=
  match declared with
  | Some g => if negb (beq g (digested c)) then EDigest
              else if negb (dsize =? 0) && negb (chunkStart c =? dsize) then ESize else Done
  | None => if negb (dsize =? 0) && negb (chunkStart c =? dsize) then ESize else Done
  end.

Definition init (stream : bytes) (cap : nat) (held : bytes) (sc : list sact) : cst :=
  mkC stream [] 0 [] cap 0 0 false 0 held sc [].

(* whole upload: result, what the registry committed (Some bytes when the closing PUT was accepted: the
   registry verifies the digest of what it holds against the one the client sends), and the PATCH log *)
Definition upload (fuel : nat) (stream : bytes) (cap : nat) (held : bytes) (sc : list sact) (declared : option bytes) (dsize : Z)
  : outcome * option bytes * list (Z * Z) :=
  let '(c, o) := loop fuel (init stream cap held sc) in
  match o with
  | Done =>
      match finish declared dsize c with
      | Done => if beq (sdata c) (digested c) then (Done, Some (sdata c), rev (log c))
                else (EDigest, None, rev (log c))   (* registry rejects: DIGEST_INVALID *)
      | e => (e, None, rev (log c))
      end
  | e => (e, None, rev (log c))
  end.

(* the loop as it was before the repair recorded in known-findings.txt: without [settle] the last short read left
   chunkSize > 0 while everything was already acknowledged, and the offset check refused to go on *)
Definition iterate_old (c : cst) : cst * outcome :=
  let c := read_ahead (S (length (rest c))) c in
  let c := reslice c in
  if (chunkSize c >? 0) && negb (chunkStart c =? bufStart c) then (c, EMismatchOffsets)
  else if chunkSize c >? 0 then patch c else (c, Running).
Fixpoint loop_old (fuel : nat) (c : cst) : cst * outcome :=
  match fuel with
  | O => (c, OutOfFuel)
  | S f =>
      if continue c then
        let '(c', o) := iterate_old c in
        match o with Running => loop_old f c' | _ => (c', o) end
      else (c, Done)
  end.

(* ---------- scheme/ocidir BlobPut: the stream goes to a temporary file while it is digested; the file is renamed to
   blobs/<alg>/<hex of the computed digest> only if a declared digest names exactly the bytes read and a declared size
   is their number.  The store maps digests (here: the bytes they name) to file contents; a failed put leaves the store
   as it was (the temporary file is not under any digest) ---------- *)
Inductive lres := LOk (d : bytes) (size : Z) | LDigest | LSize.
Definition layout_put (declared : option bytes) (dsize : Z) (stream : bytes) (store : list (bytes * bytes))
  : lres * list (bytes * bytes) :=
  match declared with
  | Some g => if negb (beq g stream) then (LDigest, store)
              else if (0 <? dsize) && negb (zlen stream =? dsize) then (LSize, store)
              else (LOk stream (zlen stream), (stream, stream) :: store)
  | None => if (0 <? dsize) && negb (zlen stream =? dsize) then (LSize, store)
            else (LOk stream (zlen stream), (stream, stream) :: store)
  end.
