(* Model/C10_Referrers.v — referrers: the client-managed fallback index (types/referrer Add/Delete), the three
   back ends (registry with the referrers API, registry with the fallback tag, OCI layout), the response cache,
   client-side filters; and the lock discipline of the fallback tag's read-modify-write.
   Executable; no proofs.  Manifests are numbers (digests); what a digest carries is a function of the digest. *)
From Coq Require Import List Arith Bool.
Import ListNotations.

Definition memn (x : nat) (l : list nat) : bool := existsb (Nat.eqb x) l.

(* referrer.ReferrerList.Add / Delete on the list of digests of the index *)
Definition rl_add (l : list nat) (d : nat) : list nat := if memn d l then l else l ++ [d].
Definition rl_del (l : list nat) (d : nat) : option (list nat) :=
  if memn d l then Some (filter (fun x => negb (Nat.eqb x d)) l) else None.       (* None = ErrNotFound *)

Record info := mkInfo { subj : nat; atype : nat; anns : list (nat * nat) }.       (* subject 0 = none *)
Inductive backend := BApi | BTag | BDir.
Record filt := mkF { f_type : nat; f_ann : list (nat * nat) }.                    (* 0 = any type; value 0 = any value *)

Fixpoint assoc (k : nat) (l : list (nat * nat)) : option nat :=
  match l with [] => None | (a, b) :: r => if Nat.eqb a k then Some b else assoc k r end.
Definition matches (inf : nat -> info) (f : filt) (d : nat) : bool :=
  (Nat.eqb (f_type f) 0 || Nat.eqb (atype (inf d)) (f_type f)) &&
  forallb (fun kv => match assoc (fst kv) (anns (inf d)) with Some v => Nat.eqb (snd kv) 0 || Nat.eqb v (snd kv) | None => false end) (f_ann f).

Fixpoint mget {A} (k : nat) (m : list (nat * A)) : option A :=
  match m with [] => None | (a, v) :: r => if Nat.eqb a k then Some v else mget k r end.
Definition mdel {A} (k : nat) (m : list (nat * A)) : list (nat * A) := filter (fun p => negb (Nat.eqb (fst p) k)) m.
Definition mset {A} (k : nat) (v : A) (m : list (nat * A)) : list (nat * A) := (k, v) :: mdel k m.

Record state := mkS {
  live : list nat;                         (* manifests stored (each once) *)
  tags : list (nat * list nat);            (* subject -> fallback index *)
  cache : list (nat * list nat)            (* subject -> cached answer *)
}.
Definition init : state := mkS [] [] [].
Definition tag_of (s : state) (x : nat) : list nat := match mget x (tags s) with Some l => l | None => [] end.

Inductive op := Put (d : nat) | Del (d : nat) | List (x : nat) (f : filt).
Inductive res := ROk | RErr | RList (l : list nat).

Definition store (l : list nat) (d : nat) : list nat := if memn d l then l else l ++ [d].
Definition unstore (l : list nat) (d : nat) : list nat := filter (fun x => negb (Nat.eqb x d)) l.
(* what a registry with the API answers *)
Definition api_answer (inf : nat -> info) (s : state) (x : nat) : list nat := filter (fun d => Nat.eqb (subj (inf d)) x) (live s).

Definition step (inf : nat -> info) (b : backend) (use_cache : bool) (s : state) (o : op) : state * res :=
  match o with
  | Put d =>
      let x := subj (inf d) in
      let lv := store (live s) d in
      if Nat.eqb x 0 then (mkS lv (tags s) (cache s), ROk)
      else match b with
           | BApi => (mkS lv (tags s) (mdel x (cache s)), ROk)                       (* the registry acknowledged the subject *)
           | BTag => let l := rl_add (tag_of s x) d in
                     (mkS lv (mset x l (tags s)) (if use_cache then mset x l (cache s) else mdel x (cache s)), ROk)
           | BDir => (mkS lv (mset x (rl_add (tag_of s x) d) (tags s)) (cache s), ROk)
           end
  | Del d =>
      if negb (memn d (live s)) then (s, RErr)                                       (* the manifest cannot be read *)
      else
        let x := subj (inf d) in
        let lv := unstore (live s) d in
        if Nat.eqb x 0 then (mkS lv (tags s) (cache s), ROk)
        else match b with
             | BApi => (mkS lv (tags s) (mdel x (cache s)), ROk)
             | BTag | BDir =>
                 match rl_del (tag_of s x) d with
                 | None => (mkS lv (tags s) (mdel x (cache s)), ROk)                 (* not in the index: ignored *)
                 | Some l => (mkS lv (match l with [] => mdel x (tags s) | _ => mset x l (tags s) end) (mdel x (cache s)), ROk)
                 end
             end
  | List x f =>
      let hit := match b with BDir => None | _ => if use_cache then mget x (cache s) else None end in
      match hit with
      | Some l => (s, RList (filter (matches inf f) l))
      | None =>
          let l := match b with BApi => api_answer inf s x | _ => tag_of s x end in
          (* an API query filtered by artifact type at the registry is not cached *)
          let cacheable := match b with BDir => false | BApi => use_cache && Nat.eqb (f_type f) 0 | BTag => use_cache end in
          let l' := match b with BApi => if Nat.eqb (f_type f) 0 then l else filter (fun d => Nat.eqb (atype (inf d)) (f_type f)) l | _ => l end in
          (mkS (live s) (tags s) (if cacheable then mset x l (cache s) else cache s), RList (filter (matches inf f) l'))
      end
  end.

Fixpoint run (inf : nat -> info) (b : backend) (uc : bool) (s : state) (ops : list op) : state * list res :=
  match ops with
  | [] => (s, [])
  | o :: r => let (s1, x) := step inf b uc s o in let (s2, xs) := run inf b uc s1 r in (s2, x :: xs)
  end.

(* ---------- the read-modify-write of one fallback tag under concurrency ---------- *)
Inductive upd := UAdd (d : nat) | UDel (d : nat).
Definition apply_upd (l : list nat) (u : upd) : list nat :=
  match u with UAdd d => rl_add l d | UDel d => match rl_del l d with Some l' => l' | None => l end end.
(* pc: 0 start, 1 lock held (or not needed), 2 value read, 3 value written, 4 finished *)
Record thread := mkT { uses_lock : bool; t_upd : upd; pc : nat; loc : list nat }.
Record cstate := mkC { val : list nat; holder : option nat; ths : list thread }.
Fixpoint set_th (i : nat) (t : thread) (l : list thread) : list thread :=
  match l, i with [], _ => [] | _ :: r, O => t :: r | x :: r, S j => x :: set_th j t r end.
Definition cstep (s : cstate) (i : nat) : option cstate :=
  match nth_error (ths s) i with
  | None => None
  | Some t =>
      match pc t with
      | 0 => if uses_lock t
             then match holder s with None => Some (mkC (val s) (Some i) (set_th i (mkT true (t_upd t) 1 (loc t)) (ths s))) | Some _ => None end
             else Some (mkC (val s) (holder s) (set_th i (mkT false (t_upd t) 1 (loc t)) (ths s)))
      | 1 => Some (mkC (val s) (holder s) (set_th i (mkT (uses_lock t) (t_upd t) 2 (val s)) (ths s)))
      | 2 => Some (mkC (apply_upd (loc t) (t_upd t)) (holder s) (set_th i (mkT (uses_lock t) (t_upd t) 3 (loc t)) (ths s)))
      | 3 => Some (mkC (val s) (if uses_lock t then None else holder s) (set_th i (mkT (uses_lock t) (t_upd t) 4 (loc t)) (ths s)))
      | _ => None
      end
  end.
Fixpoint crun (s : cstate) (sched : list nat) : option cstate :=
  match sched with [] => Some s | i :: r => match cstep s i with Some s' => crun s' r | None => None end end.
Definition cinit (v : list nat) (us : list (bool * upd)) : cstate :=
  mkC v None (map (fun p => mkT (fst p) (snd p) 0 []) us).
Definition finished (s : cstate) : bool := forallb (fun t => Nat.eqb (pc t) 4) (ths s).
