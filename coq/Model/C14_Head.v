(* Model/C14_Head.v — image.go imageCopyOpt: the ladder at the head of every manifest copy that decides, from a HEAD of
   the target, what has to be asked of the source and whether the manifest can be skipped altogether.
     tgt    = digest the target HEAD reports (None: HEAD failed / reports no digest)
     known  = the source digest when the caller already has it (descriptor of an index entry, digest in the reference)
     src    = the digest the source reports when asked
     fast / force / refs / dtags = opt.fastCheck, opt.forceRecursive, opt.referrerConfs != nil, opt.digestTags
     tgt_list = the target's manifest is an index
   Result: the manifest requests sent (in order) and whether the copy returns at once ("skipped").  Executable; no proofs. *)
From Coq Require Import List Arith Bool.
Import ListNotations.

Inductive hact := AHeadTgt | AHeadSrc | AGetSrcMan.

Definition oeqb (a b : option nat) : bool := match a, b with Some x, Some y => Nat.eqb x y | _, _ => false end.

Definition head_ladder (tgt known : option nat) (src : nat) (fast force refs dtags tgt_list : bool) : list hact * bool :=
  let plain := fast || (negb force && negb refs && negb dtags) in
  let cmp := match tgt with Some _ => plain | None => false end in
  (* first block: compare with the source digest *)
  let '(a1, s1) := if cmp then match known with Some k => ([], Some k) | None => ([AHeadSrc], Some src) end else ([], known) in
  if cmp && oeqb s1 tgt then (AHeadTgt :: a1, true) else
  (* second block: referrers / digest tags only need the source digest *)
  let '(a2, s2) := match tgt, s1 with
                   | Some _, None => if negb force then ([AHeadSrc], Some src) else ([], None)
                   | _, _ => ([], s1)
                   end in
  (* third block: the body is needed when a copy or a recursion is needed *)
  let need := match s2, tgt with
              | Some a, Some b => negb (Nat.eqb a b) || force || tgt_list
              | _, _ => true
              end in
  (AHeadTgt :: a1 ++ a2 ++ (if need then [AGetSrcMan] else []), false).
