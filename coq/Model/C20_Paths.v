(* Model/C20_Paths.v — Go's lexical path.Clean / filepath.Join (Linux), the file-name computation of
   `regctl artifact get`, archive.Extract's destination, and go-digest's Validate as far as it
   constrains the characters of a digest.  Executable; no proofs. *)
From Coq Require Import List String Ascii Bool NArith Arith.
From Verif Require Import Base.StrX Model.C15_Ref.
Import ListNotations.
Close Scope string_scope.
Open Scope list_scope.
Open Scope nat_scope.

Definition comp := str.
Definition s_dot : str := ["."%char].
Definition s_dotdot : str := ["."%char; "."%char].

(* one element of Clean's scan; the stack holds the kept elements, most recent first *)
Definition step (rooted : bool) (st : list comp) (c : comp) : list comp :=
  if match c with [] => true | _ => false end || str_eqb c s_dot then st
  else if str_eqb c s_dotdot then
    match st with
    | [] => if rooted then [] else [s_dotdot]
    | top :: st' => if str_eqb top s_dotdot then c :: st else st'
    end
  else c :: st.
Definition clean_stack (rooted : bool) (st : list comp) (cs : list comp) : list comp := fold_left (step rooted) cs st.
Definition clean_comps (rooted : bool) (cs : list comp) : list comp := rev (clean_stack rooted [] cs).

Definition is_rooted (s : str) : bool := match s with "/"%char :: _ => true | _ => false end.

(* path.Clean *)
Definition clean (s : str) : str :=
  match s with
  | [] => s_dot
  | _ =>
      let r := is_rooted s in
      let body := joinc "/" (clean_comps r (splitc "/" s)) in
      if r then "/"%char :: body else match body with [] => s_dot | _ => body end
  end.

(* filepath.Join on Linux: empty elements are ignored, the rest joined by "/" and cleaned *)
Definition join (elems : list str) : str :=
  match filter (fun e => match e with [] => false | _ => true end) elems with
  | [] => []
  | es => clean (joinc "/" es)
  end.

Definition has_suffix_slash (s : str) : bool := match lastc s with Some c => Ascii.eqb c "/" | None => false end.

(* text from the last "/" on (strings.LastIndex + slice); the input always contains a "/" here *)
Fixpoint from_last_slash (s : str) : str :=
  match s with
  | [] => []
  | c :: s' => if existsb (c_is "/") s' then from_last_slash s' else s
  end.

Record dest := mkDest { d_mkdir : option str; d_target : str; d_extract : bool }.

(* cmd/regctl/artifact.go runArtifactGet: title annotation (or the digest's hex when absent), the
   unpack annotation, --strip-dirs, the output directory *)
Definition artifact_dest (outdir title enc : str) (unpack strip : bool) : dest :=
  let f0 := match title with [] => enc | _ => title end in
  let f := clean ("/"%char :: f0) in
  let f := if has_suffix_slash title || unpack then f ++ ["/"%char] else f in
  let f := if strip then from_last_slash f else f in
  let dirs := splitc "/" f in
  let mk := if 2 <? List.length dirs then
              Some (join [outdir; join (removelast (tl dirs))])
            else None in
  mkDest mk (join [outdir; f]) (has_suffix_slash f).

(* pkg/archive.Extract: filepath.Join(path, filepath.Clean("/"+hdr.Name)) *)
Definition extract_dest (dir name : str) : str := join [dir; clean ("/"%char :: name)].

(* go-digest Validate for the registered algorithms: <alg>:<lower-case hex of the exact length> *)
Definition c_lhex (c : ascii) : bool :=
  let n := N_of_ascii c in is_digit c || ((97 <=? n) && (n <=? 102))%N.
Definition digest_valid (d : str) : option (str * str) :=
  match cut ":" d with
  | Some (a, h) =>
      let n := if str_eqb a (of_string "sha256") then 64 else if str_eqb a (of_string "sha384") then 96
               else if str_eqb a (of_string "sha512") then 128 else 0 in
      if negb (Nat.eqb n 0) && Nat.eqb (List.length h) n && alln c_lhex h then Some (a, h) else None
  | None => None
  end.
(* scheme/ocidir: path.Join(r.Path, "blobs", alg, hex) *)
Definition blob_path (layout : str) (a h : str) : str := join [layout; of_string "blobs"; a; h].
