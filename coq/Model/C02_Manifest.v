(* Model/C02_Manifest.v — types/manifest: manifest.New on raw bytes (which digest is expected, what is reported), the
   setters (every one funnels through updateDesc), what a push sends.  Bytes, parsed values, the JSON encoder /
   decoder and the hash functions are parameters; the bookkeeping around them is the model.  Executable once the
   parameters are instantiated; no proofs. *)
From Coq Require Import List Arith Bool.
Import ListNotations.

Section Manifest.
  Variables bytes value : Type.
  Variable hash : nat -> bytes -> nat.          (* algorithm, bytes -> digest *)
  Variable len : bytes -> nat.
  Variable marshal : value -> bytes.
  Variable parse : nat -> bytes -> option value. (* media type, bytes *)
  Variable body_mt : bytes -> nat.              (* the mediaType field of the body, 0 when absent *)
  Variable detect : bytes -> nat.               (* duck typing when no media type is given, 0 = unsupported *)

  Record man := mkMan { raw : bytes; alg : nat; dg : nat; size : nat; mt : nat; val : value }.
  Definition expect := option (nat * nat).     (* algorithm and digest *)

  (* New: the descriptor's digest, else the reference's, else the header's *)
  Definition first_expected (e_desc e_ref e_hdr : expect) : expect :=
    match e_desc with Some e => Some e | None => match e_ref with Some e => Some e | None => e_hdr end end.

  Definition new (e_desc e_ref e_hdr : expect) (mt_desc mt_hdr : nat) (r : bytes) : option man :=
    let e := first_expected e_desc e_ref e_hdr in
    let a := match e with Some (a, _) => a | None => 0 end in              (* 0 = the canonical algorithm *)
    let m0 := if Nat.eqb mt_desc 0 then mt_hdr else mt_desc in
    let m := if Nat.eqb m0 0 then (if Nat.eqb (body_mt r) 0 then detect r else body_mt r) else m0 in
    match parse m r with
    | None => None
    | Some v =>
        if negb (Nat.eqb (body_mt r) 0) && negb (Nat.eqb (body_mt r) m) then None       (* verifyMT *)
        else
          let d := hash a r in
          match e with
          | Some (_, d') => if Nat.eqb d' d then Some (mkMan r a d (len r) m v) else None (* digest mismatch *)
          | None => Some (mkMan r a d (len r) m v)
          end
    end.

  (* any setter: the struct is edited, then updateDesc *)
  Definition set (f : value -> value) (m : man) : man :=
    let v := f (val m) in let r := marshal v in mkMan r (alg m) (hash (alg m) r) (len r) (mt m) v.
  Definition edits (fs : list (value -> value)) (m : man) : man := fold_left (fun m f => set f m) fs m.

  (* MarshalJSON / RawBody: what a push sends *)
  Definition pushed (m : man) : bytes := raw m.
End Manifest.
