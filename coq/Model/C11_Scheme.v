(* Model/C11_Scheme.v — internal/reghttp: which URL scheme a request leaves with.  A request built from the host
   configuration uses https unless the host is tls: disabled; a URL supplied by a server (upload Location, external
   URL: Req.DirectURL in Resp.next) or the Location of a redirect (clientHost.checkRedirect) is used as given, except
   that an http URL pointing back at the registry's own host is put on https when the host is configured for TLS
   (tls: enabled and tls: insecure alike).  Executable; no proofs. *)
From Coq Require Import Bool.
From Verif Require Import Model.C11_Creds.

(* [given] = None: built from the configuration; Some (is_http, own_host): a server-supplied URL *)
Definition sent_https (t : tls) (given : option (bool * bool)) : bool :=
  match given with
  | None => scheme_https t
  | Some (is_http, own_host) => if is_http && scheme_https t && own_host then true else negb is_http
  end.

(* the upgrade limited to tls: enabled (an `==` where `!=` belongs) *)
Definition sent_https_enabled_only (t : tls) (given : option (bool * bool)) : bool :=
  match given with
  | None => scheme_https t
  | Some (is_http, own_host) =>
      if is_http && (match t with TLSEnabled => true | _ => false end) && own_host then true else negb is_http
  end.
