(* Model/C01_BlobRead.v — internal/limitread.LimitRead.Read and types/blob.BReader.Read / Seek(0,SeekStart)
   over an ARBITRARY underlying reader (any state machine answering Read and Seek), an arbitrary hash
   function, an arbitrary sequence of caller buffer sizes.  Executable; no proofs. *)
From Coq Require Import List ZArith Bool.
Import ListNotations.
Open Scope Z_scope.

Section Model.
  Variables byte digest S : Type.
  Variable H : list byte -> digest.                 (* the digester; no assumption *)
  Variable deqb : digest -> digest -> bool.

  (* the underlying io.Reader / io.Seeker *)
  Inductive uev := UMore | UEOF | UErr.             (* err == nil | err == io.EOF | any other error *)
  Variable uread : S -> nat -> list byte * uev * S. (* Read(p) with len(p) = n *)
  Variable useek0 : S -> option S.                  (* Seek(0, SeekStart): None = error / not a Seeker *)

  Inductive ev := More | CleanEOF | EShort | EExceeded | EDigest | EOther.

  (* LimitRead.Read: [None] in the event position = the "read limit exceeded" error *)
  Definition limit_read (lim : Z) (s : S) (n : nat) : list byte * option uev * Z * S :=
    if lim <? 0 then ([], None, lim, s) else
    let n' := if Z.of_nat n >? lim + 1 then Z.to_nat (lim + 1) else n in
    let '(bs, e, s') := uread s n' in
    let lim' := lim - Z.of_nat (length bs) in
    if lim' <? 0 then (bs, None, lim', s') else (bs, Some e, lim', s').

  (* BReader: descriptor (size, digest; [None] = Digest.Validate() fails), counters, tee accumulator,
     whether a LimitRead is installed and its remaining limit, the underlying reader *)
  Record st := mkSt { dsize : Z; ddig : option digest; rb : Z; acc : list byte; lim_on : bool; lim : Z; us : S }.

  Definition init (size : Z) (dg : option digest) (s : S) : st :=
    mkSt size dg 0 [] (size >? 0) size s.

  (* NewReader: what the descriptor becomes when response headers are present.  The caller's digest is
     DEmpty (""), DInvalid (non-empty but Validate fails) or DValid g; [hsize] = Atoi(Content-Length)
     (0 on error), [hdg] = digest.Parse(Docker-Content-Digest) when it parses *)
  Inductive ddesc := DEmpty | DInvalid | DValid (g : digest).
  Definition new_reader_desc (size : Z) (dg : ddesc) (hdr : option (Z * option digest)) : Z * option digest :=
    match hdr with
    | Some (hsize, hdg) =>
        (if size =? 0 then hsize else size,
         match dg with DEmpty => hdg | DInvalid => None | DValid g => Some g end)
    | None => (size, match dg with DValid g => Some g | _ => None end)
    end.
  Definition new_reader (size : Z) (dg : ddesc) (hdr : option (Z * option digest)) (s : S) : st :=
    let '(sz, d) := new_reader_desc size dg hdr in init sz d s.

  Definition breader_read (x : st) (n : nat) : list byte * ev * st :=
    let '(bs, oe, lim', s') :=
        if lim_on x then limit_read (lim x) (us x) n
        else let '(bs, e, s') := uread (us x) n in (bs, Some e, lim x, s') in
    let rb' := rb x + Z.of_nat (length bs) in
    let acc' := acc x ++ bs in
    match oe with
    | None => (bs, EExceeded, mkSt (dsize x) (ddig x) rb' acc' (lim_on x) lim' s')
    | Some UMore => (bs, More, mkSt (dsize x) (ddig x) rb' acc' (lim_on x) lim' s')
    | Some UErr => (bs, EOther, mkSt (dsize x) (ddig x) rb' acc' (lim_on x) lim' s')
    | Some UEOF =>
        (* check/save size *)
        let '(size', e1) :=
          if dsize x =? 0 then (rb', CleanEOF)
          else if rb' <? dsize x then (dsize x, EShort)
          else if rb' >? dsize x then (dsize x, EExceeded) else (dsize x, CleanEOF) in
        (* check/save digest *)
        let '(dig', e2) :=
          match ddig x with
          | None => (Some (H acc'), e1)
          | Some g => if deqb g (H acc') then (Some g, e1) else (Some g, EDigest)
          end in
        (bs, e2, mkSt size' dig' rb' acc' (lim_on x) lim' s')
    end.

  (* Seek(0, io.SeekStart): on success the limit reader and digester are rebuilt from the CURRENT descriptor *)
  Definition seek0 (x : st) : bool * st :=
    match useek0 (us x) with
    | None => (false, x)
    | Some s' => (true, mkSt (dsize x) (ddig x) 0 [] (dsize x >? 0) (dsize x) s')
    end.

  (* caller programs *)
  Inductive op := ORead (n : nat) | OSeek0.
  Inductive out := ORd (bs : list byte) (e : ev) | OSk (ok : bool).

  Definition step (x : st) (o : op) : out * st :=
    match o with
    | ORead n => let '(bs, e, x') := breader_read x n in (ORd bs e, x')
    | OSeek0 => let '(ok, x') := seek0 x in (OSk ok, x')
    end.

  Fixpoint run (x : st) (ops : list op) : list out * st :=
    match ops with
    | [] => ([], x)
    | o :: ops' => let '(r, x') := step x o in let '(rs, x'') := run x' ops' in (r :: rs, x'')
    end.
End Model.

