(* Model/C05_Chunk.v — scheme/reg: how the chunk size of an upload is chosen.  A registry may announce
   OCI-Chunk-Min-Length on the POST that opens a session (blobGetUploadURL) or on the mount POST (blobMount); both
   sites apply the same rule to host.BlobChunk; blobPutUploadChunked then allocates host.BlobChunk bytes, or the
   client default when the host has no setting.  Executable; no proofs. *)
From Coq Require Import ZArith Bool.
Local Open Scope Z_scope.

(* host.BlobChunk after a response that announces [minsize]; [deflt] = reg.blobChunkSize, [limit] = reg.blobChunkLimit *)
Definition raise (host_chunk deflt limit minsize : Z) : Z :=
  if ((0 <? host_chunk) && (host_chunk <? minsize)) || ((host_chunk <=? 0) && (deflt <? minsize))
  then Z.min minsize limit else host_chunk.

(* the buffer blobPutUploadChunked allocates *)
Definition buf_size (host_chunk deflt : Z) : Z := if host_chunk <=? 0 then deflt else host_chunk.

(* length of the first PATCH of a stream of [len] bytes *)
Definition first_chunk (host_chunk deflt limit minsize len : Z) : Z :=
  Z.min (buf_size (if 0 <? minsize then raise host_chunk deflt limit minsize else host_chunk) deflt) len.

(* the comparison as a "simplification" once wrote it: against the larger of the two settings *)
Definition raise_max (host_chunk deflt limit minsize : Z) : Z :=
  if Z.max host_chunk deflt <? minsize then Z.min minsize limit else host_chunk.
