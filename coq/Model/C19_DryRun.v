(* Model/C19_DryRun.v — what a regbot script can do to registries and layouts.  Whatever its control flow,
   the effect of a script run is the effect of the sequence of API functions it ends up calling; what each
   function calls on the RegClient, and whether that call sits behind the dry-run gate, is the table the
   translator regenerates from cmd/regbot/sandbox on every run.  Executable; no proofs. *)
From Coq Require Import List String Bool.
From Verif Require Import Gen.SandboxFns.
Import ListNotations.
Open Scope string_scope.

(* the state-changing RegClient calls a sandbox function performs in a given mode *)
Definition effects_of (table : list sbcall) (dry : bool) (fn : string) : list string :=
  map sc_method
      (filter (fun c => (sc_fn c =? fn) && sc_mutating c && negb (dry && sc_gated c)) table).

(* a script run = the list of sandbox functions it called (any finite sequence); scripts run one after
   another, an error in one ends that script only *)
Definition run_script (table : list sbcall) (dry : bool) (calls : list string) : list string :=
  flat_map (effects_of table dry) calls.

Definition all_gated (table : list sbcall) : bool := forallb (fun c => implb (sc_mutating c) (sc_gated c)) table.

(* cmd/regbot/root.go: scripts are independent units; a failing script is reported and the loop goes on *)
Fixpoint run_all (table : list sbcall) (dry : bool) (scripts : list (list string * bool)) : list (list string) :=
  match scripts with
  | [] => []
  | (calls, _fails) :: rest => run_script table dry calls :: run_all table dry rest
  end.
