(* Model/C09_Import.v — image.go: the export walk (imageExportDescriptor) and the import state machine
   (tarReadAll, the OCI handlers, the Docker manifest.json fall-back, the deferred manifest pushes).
   Executable; no proofs.

   Names and digests are numbers.  0 = oci-layout, 1 = index.json, 2 = manifest.json; the tar path
   blobs/<alg>/<hex> and the digest <alg>:<hex> share one number; every file entry carries the number of the
   digest of its bytes (its content), so "the bytes under this name have this digest" is  content = name. *)
From Coq Require Import List Arith Bool.
Import ListNotations.

Definition N_LAYOUT := 0.
Definition N_INDEX := 1.
Definition N_DOCKER := 2.

(* what the media type of a descriptor says: a known manifest type, a known blob type, none (the content is
   inspected), or some other type (treated as a blob after a failed attempt to parse it as a manifest) *)
Inductive cls := KMan | KBlob | KUnk | KOther.
Inductive node :=
| NIndex (children : list (nat * cls))
| NImage (config : option nat) (layers : list nat)
| NBlob.

Inductive entry := EFile (name content : nat) | ELnk (name target : nat).

Record dimg := mkD { d_tags : list nat; d_config : nat; d_layers : list nat }.   (* one manifest.json element *)
Record arch := mkArch {
  entries : list entry;
  layout_ok : bool;                       (* oci-layout has the supported version *)
  idx : list (nat * cls * nat);           (* index.json: digest, media type class, ref.name (0 = none) *)
  content : nat -> node;                  (* how the bytes with that digest parse *)
  docker : list dimg;
  empty_id : nat                          (* the digest of the empty byte string *)
}.
Inductive sel := SelDigest (d : nat) | SelName (n : nat) | SelTag (t : nat).

Inductive hk := HLayout | HIndex | HDocker | HMan (c : cls) (child : bool) (d : nat) | HBlob (d : nat) | HDConfig | HDLayer (positions : list nat).
Inductive fin := FTag (d : nat) | FPush (d : nat) (child : bool).
Inductive ev := EvBlob (d : nat) | EvPut (d : nat) | EvTag (d : nat) | EvDConfig (c : nat) | EvDLayer (c : nat) | EvDMan (cfg : option nat) (layers : list (option nat)).
Inductive err := ENotFound | EOther.

Record st := mkSt {
  hs : list (nat * hk); proc : list nat; links : list (nat * list nat); fins : list fin; out : list ev;
  bpresent : list nat; mpresent : list nat; added : bool; foundL : bool; foundI : bool; dfound : bool;
  mans : list nat; dcfg : option nat; dlayers : list (option nat)
}.

Definition memn (x : nat) (l : list nat) : bool := existsb (Nat.eqb x) l.
Fixpoint hget (n : nat) (h : list (nat * hk)) : option hk :=
  match h with [] => None | (k, v) :: r => if Nat.eqb k n then Some v else hget n r end.
Definition hdel (n : nat) (h : list (nat * hk)) : list (nat * hk) := filter (fun p => negb (Nat.eqb (fst p) n)) h.
Definition hset (n : nat) (v : hk) (h : list (nat * hk)) : list (nat * hk) := (n, v) :: hdel n h.
Definition has_h (s : st) (n : nat) : bool := match hget n (hs s) with Some _ => true | None => false end.
Fixpoint lget (n : nat) (l : list (nat * list nat)) : list nat :=
  match l with [] => [] | (k, v) :: r => if Nat.eqb k n then v else lget n r end.
Fixpoint lset (n : nat) (v : list nat) (l : list (nat * list nat)) : list (nat * list nat) :=
  match l with [] => [(n, v)] | (k, w) :: r => if Nat.eqb k n then (k, v) :: r else (k, w) :: lset n v r end.

Definition upd_hs s h := mkSt h (proc s) (links s) (fins s) (out s) (bpresent s) (mpresent s) (added s) (foundL s) (foundI s) (dfound s) (mans s) (dcfg s) (dlayers s).
Definition upd_added s b := mkSt (hs s) (proc s) (links s) (fins s) (out s) (bpresent s) (mpresent s) b (foundL s) (foundI s) (dfound s) (mans s) (dcfg s) (dlayers s).

(* add a handler unless the name was processed or already has one *)
Definition add_h (s : st) (n : nat) (v : hk) : st :=
  if memn n (proc s) || has_h s n then s else upd_hs s (hs s ++ [(n, v)]).

(* imageImportOCIHandleManifest with push = true *)
Definition handle_man (a : arch) (s : st) (d : nat) (child : bool) : st :=
  let s1 := match content a d with
            | NIndex ch => fold_left (fun s' p => add_h s' (fst p) (HMan (snd p) true (fst p))) ch s
            | NImage cfg layers =>
                let s' := match cfg with Some c => add_h s c (HBlob c) | None => s end in
                fold_left (fun s'' l => add_h s'' l (HBlob l)) layers s'
            | NBlob => s
            end in
  mkSt (hs s1) (proc s1) (links s1) (fins s1 ++ [FPush d child]) (out s1) (bpresent s1) (mpresent s1) true
       (foundL s1) (foundI s1) (dfound s1) (d :: mans s1) (dcfg s1) (dlayers s1).

(* imageImportBlob: skipped when the target has the blob; otherwise the reader must deliver the blob *)
Definition import_blob (a : arch) (s : st) (d c : nat) (drained : bool) : st + err :=
  if memn d (bpresent s) then inl s
  else if (if drained then Nat.eqb d (empty_id a) else Nat.eqb c d)
  then inl (mkSt (hs s) (proc s) (links s) (fins s) (out s ++ [EvBlob d]) (d :: bpresent s) (mpresent s) (added s)
                 (foundL s) (foundI s) (dfound s) (mans s) (dcfg s) (dlayers s))
  else inr EOther.

Fixpoint find_ref (n : nat) (l : list (nat * cls * nat)) : option (nat * cls) :=
  match l with [] => None | (d, k, r) :: t => if Nat.eqb r n then Some (d, k) else find_ref n t end.

(* the common handler run once oci-layout and index.json were both read *)
Definition oci_handler (a : arch) (q : sel) (s : st) : st + err :=
  let s0 := upd_hs s (hdel N_DOCKER (hs s)) in
  let pick := match idx a with
              | [(d, k, _)] => Some (d, k)
              | l => match q with
                     | SelDigest d => Some (d, KUnk)
                     | SelName n => find_ref n l
                     | SelTag t => find_ref t l
                     end
              end in
  match pick with
  | None => inr EOther
  | Some (d, k) =>
      let s1 := add_h s0 d (HMan k false d) in
      inl (mkSt (hs s1) (proc s1) (links s1) (fins s1 ++ [FTag d]) (out s1) (bpresent s1) (mpresent s1) true
                (foundL s1) (foundI s1) (dfound s1) (mans s1) (dcfg s1) (dlayers s1))
  end.

Definition set_found (s : st) (l i : bool) : st :=
  mkSt (hs s) (proc s) (links s) (fins s) (out s) (bpresent s) (mpresent s) (added s) l i (dfound s) (mans s) (dcfg s) (dlayers s).

Fixpoint set_nth {A} (i : nat) (v : A) (l : list A) : list A :=
  match l, i with [], _ => [] | _ :: r, O => v :: r | x :: r, S j => x :: set_nth j v r end.

(* one handler on the bytes c of the current tar entry.  drained = the handler of an index entry hands the tar reader
   it has already read to the blob upload (the code before the repair; the repaired code uploads the bytes read) *)
Definition run_h_gen (drained : bool) (a : arch) (q : sel) (s : st) (h : hk) (c : nat) : st + err :=
  match h with
  | HLayout => if layout_ok a
               then let s1 := set_found s true (foundI s) in if foundI s then oci_handler a q s1 else inl s1
               else inl s
  | HIndex => let s1 := set_found s (foundL s) true in if foundL s then oci_handler a q s1 else inl s1
  | HDocker => inl (mkSt (hs s) (proc s) (links s) (fins s) (out s) (bpresent s) (mpresent s) (added s) (foundL s) (foundI s) true (mans s) (dcfg s) (dlayers s))
  | HMan k child d =>
      let is_man := Nat.eqb c d && match content a d with NBlob => false | _ => true end in
      match k with
      | KMan => if is_man then inl (handle_man a s d child) else inr EOther
      | KBlob => import_blob a s d c drained
      | KUnk => if is_man then inl (handle_man a s d child) else import_blob a s d c drained
      | KOther => import_blob a s d c drained
      end
  | HBlob d => import_blob a s d c false
  | HDConfig => inl (mkSt (hs s) (proc s) (links s) (fins s) (out s ++ [EvDConfig c]) (bpresent s) (mpresent s) (added s) (foundL s) (foundI s) (dfound s) (mans s) (Some c) (dlayers s))
  | HDLayer ps => inl (mkSt (hs s) (proc s) (links s) (fins s) (out s ++ [EvDLayer c]) (bpresent s) (mpresent s) (added s) (foundL s) (foundI s) (dfound s) (mans s) (dcfg s)
                           (fold_left (fun l i => set_nth i (Some c) l) ps (dlayers s)))
  end.
Definition run_h := run_h_gen false.

(* linkList: the names recorded as links to tgt, and the links to those (two levels, as the range loop does) *)
Definition link_list (s : st) (tgt : nat) : option (list nat) :=
  let l1 := lget tgt (links s) in
  if memn tgt l1 then None else Some (l1 ++ flat_map (fun e => lget e (links s)) l1).

Inductive pres := PCont (s : st) | PDone (s : st) | PErr (e : err).

(* the inner loop over the entry's own name and the link names that point at it *)
Fixpoint run_list (a : arch) (q : sel) (s : st) (names : list nat) (c : nat) (used : bool) : pres :=
  match names with
  | [] => PCont s
  | n :: r =>
      match hget n (hs s) with
      | None => run_list a q s r c used
      | Some h =>
          if used then PCont (upd_added s true)
          else match run_h a q s h c with
               | inr e => PErr e
               | inl s1 =>
                   let s2 := mkSt (hdel n (hs s1)) (n :: proc s1) (links s1) (fins s1) (out s1) (bpresent s1) (mpresent s1) (added s1)
                                  (foundL s1) (foundI s1) (dfound s1) (mans s1) (dcfg s1) (dlayers s1) in
                   match hs s2 with [] => PDone s2 | _ => run_list a q s2 r c true end
               end
      end
  end.

Fixpoint pass (a : arch) (q : sel) (s : st) (es : list entry) : pres :=
  match es with
  | [] => PCont s
  | ELnk n t :: r =>
      let old := lget t (links s) in
      if memn n old then pass a q s r
      else
        let s1 := mkSt (hs s) (proc s) (lset t (old ++ [n]) (links s)) (fins s) (out s) (bpresent s) (mpresent s) (added s)
                       (foundL s) (foundI s) (dfound s) (mans s) (dcfg s) (dlayers s) in
        if added s1 then pass a q s1 r
        else match link_list s1 t with
             | None => PErr EOther
             | Some l => pass a q (if existsb (has_h s1) (l ++ [n]) then upd_added s1 true else s1) r
             end
  | EFile n c :: r =>
      match link_list s n with
      | None => PErr EOther
      | Some l => match run_list a q s (l ++ [n]) c false with
                  | PCont s1 => pass a q s1 r
                  | x => x
                  end
      end
  end.

(* tarReadAll: passes until the handler table empties; a pass that added nothing fails *)
Fixpoint read_all (fuel : nat) (a : arch) (q : sel) (s : st) : option (st + (st * err)) :=
  match hs s with
  | [] => Some (inl s)
  | _ =>
    match fuel with
    | O => None
    | S f =>
        match pass a q (upd_added s false) (entries a) with
        | PDone s1 => Some (inl s1)
        | PErr e => Some (inr (s, e))
        | PCont s1 => if added s1 then read_all f a q s1 else Some (inr (s1, ENotFound))
        end
    end
  end.

(* the deferred pushes, last registered first.  run_fins_old is the code before the repair: a nested manifest shared
   with a manifest list that was read earlier is pushed after the later list. *)
Definition put_man (d : nat) (s : st) : st :=
  if memn d (mpresent s) then s
  else mkSt (hs s) (proc s) (links s) (fins s) (out s ++ [EvPut d]) (bpresent s) (d :: mpresent s) (added s)
            (foundL s) (foundI s) (dfound s) (mans s) (dcfg s) (dlayers s).
Fixpoint run_fins_old (l : list fin) (s : st) : st + err :=
  match l with
  | [] => inl s
  | FPush d _ :: r => run_fins_old r (put_man d s)
  | FTag d :: r =>
      if memn d (mans s)
      then run_fins_old r (mkSt (hs s) (proc s) (links s) (fins s) (out s ++ [EvTag d]) (bpresent s) (d :: mpresent s) (added s)
                            (foundL s) (foundI s) (dfound s) (mans s) (dcfg s) (dlayers s))
      else inr EOther
  end.

(* the repaired push of one manifest: once; the registered children of a list first *)
Fixpoint fpush (fuel : nat) (a : arch) (reg : list nat) (d : nat) (sd : st * list nat) : st * list nat :=
  match fuel with
  | O => sd
  | S f =>
      if memn d (snd sd) then sd
      else
        let sd1 := (fst sd, d :: snd sd) in
        let sd2 := match content a d with
                   | NIndex ch => fold_left (fun acc p => if memn (fst p) reg then fpush f a reg (fst p) acc else acc) ch sd1
                   | _ => sd1
                   end in
        (put_man d (fst sd2), snd sd2)
  end.
Definition registered (l : list fin) : list nat := flat_map (fun f => match f with FPush d _ => [d] | FTag _ => [] end) l.
Fixpoint run_fins_from (fuel : nat) (a : arch) (reg : list nat) (l : list fin) (sd : st * list nat) : st + err :=
  match l with
  | [] => inl (fst sd)
  | FPush d _ :: r => run_fins_from fuel a reg r (fpush fuel a reg d sd)
  | FTag d :: r =>
      let s := fst sd in
      if memn d (mans s)
      then run_fins_from fuel a reg r (mkSt (hs s) (proc s) (links s) (fins s) (out s ++ [EvTag d]) (bpresent s) (d :: mpresent s) (added s)
                            (foundL s) (foundI s) (dfound s) (mans s) (dcfg s) (dlayers s), snd sd)
      else inr EOther
  end.
Definition run_fins (fuel : nat) (a : arch) (l : list fin) (s : st) : st + err := run_fins_from fuel a (registered l) l (s, []).

Fixpoint find_img (n : nat) (i : nat) (l : list dimg) : option (nat * dimg) :=
  match l with [] => None | d :: r => if memn n (d_tags d) then Some (i, d) else find_img n (S i) r end.
(* one handler per layer file, for all the positions at which manifest.json lists it *)
Fixpoint positions (n : nat) (i : nat) (l : list nat) : list nat :=
  match l with [] => [] | x :: r => (if Nat.eqb x n then [i] else []) ++ positions n (S i) r end.
Definition add_layers (l : list nat) (h : list (nat * hk)) : list (nat * hk) :=
  fold_left (fun h' n => hset n (HDLayer (positions n 0 l)) h') l h.

(* imageImportDockerAddLayerHandlers *)
Definition docker_handlers (a : arch) (q : sel) (s : st) : st :=
  let h0 := hdel N_INDEX (hdel N_LAYOUT (hs s)) in
  let s0 := upd_hs s h0 in
  let img := match q with
             | SelName n => match find_img n 0 (docker a) with Some (_, d) => Some d | None => None end
             | _ => match docker a with d :: _ => Some d | [] => None end
             end in
  match img with
  | None => s0
  | Some d =>
      let h1 := add_layers (d_layers d) (hset (d_config d) HDConfig h0) in
      mkSt h1 (proc s0) (links s0) (fins s0) (out s0) (bpresent s0) (mpresent s0) true (foundL s0) (foundI s0) (dfound s0) (mans s0)
           None (repeat None (length (d_layers d)))
  end.

Definition st0 (bp mp : list nat) : st :=
  mkSt [(N_LAYOUT, HLayout); (N_INDEX, HIndex); (N_DOCKER, HDocker)] [] [] [] [] bp mp false false false false [] None [].

(* ImageImport *)
Definition import (fuel : nat) (a : arch) (q : sel) (bp mp : list nat) : option (list ev + err) :=
  match read_all fuel a q (st0 bp mp) with
  | None => None
  | Some (inl s) => match run_fins fuel a (rev (fins s)) s with inl s' => Some (inl (out s')) | inr e => Some (inr e) end
  | Some (inr (s, ENotFound)) =>
      if dfound s then
        match read_all fuel a q (docker_handlers a q s) with
        | None => None
        | Some (inl s1) => Some (inl (out s1 ++ [EvDMan (dcfg s1) (dlayers s1)]))
        | Some (inr (_, e)) => Some (inr e)
        end
      else Some (inr ENotFound)
  | Some (inr (_, e)) => Some (inr e)
  end.

(* ---------- export: imageExportDescriptor ---------- *)
Inductive xdesc := XMan (d : nat) | XBlob (d : nat).   (* the media type of the descriptor selects the branch *)
Fixpoint export (fuel : nat) (content : nat -> node) (written : list nat) (x : xdesc) : list nat :=
  match fuel with
  | O => written
  | S f =>
      match x with
      | XBlob d => if memn d written then written else written ++ [d]
      | XMan d =>
          if memn d written then written
          else match content d with
               | NIndex ch => fold_left (fun w p => export f content w (match snd p with KMan => XMan (fst p) | _ => XBlob (fst p) end)) ch (written ++ [d])
               | NImage cfg layers =>
                   let w1 := match cfg with Some c => export f content (written ++ [d]) (XBlob c) | None => written ++ [d] end in
                   fold_left (fun w l => export f content w (XBlob l)) layers w1
               | NBlob => written ++ [d]
               end
      end
  end.
