(* Model/C11_Creds.v — where credentials travel: internal/auth Auth (handlers keyed by the URL host that challenged,
   UpdateRequest, HandleResponse, the bearer token request) as used by internal/reghttp (one Auth per configured
   registry - per repository with RepoAuth -, the credentials function handed to it, redirects and direct URLs
   re-evaluated per host, the scheme of a request).  Executable; no proofs.  Hosts are numbers. *)
From Coq Require Import List Arith Bool.
Import ListNotations.

Inductive kind := KBasic | KBearer (realm : nat).           (* the host of the token endpoint named in the challenge *)

(* an Auth object: the registry it was created for and what that registry is configured with *)
Record owner := mkO { o_id : nat; o_reg : nat; o_userpass : bool; o_idtoken : bool }.

(* what the environment (servers, redirects, the operation performed) makes the client do *)
Inductive act :=
| AChallenge (o : owner) (from : nat) (k : kind)   (* a 401 whose final request went to `from`: HandleResponse *)
| ARequest (o : owner) (dest : nat)                (* a request reaches URL host dest (the registry itself, a redirect target,
                                                      a direct URL): UpdateRequest *)
| AToken (o : owner) (from : nat).                 (* the bearer handler for host `from` asks its realm for a token *)

(* what leaves the client *)
Inductive sent :=
| SCred (of dest : nat)                       (* user/password or identity token of registry `of`, to dest *)
| STok (of issuer dest : nat) (authed : bool) (* a bearer token issued by `issuer` in answer to credentials of `of`, sent to dest *)
| SChal (from : nat) (k : kind).              (* not a transmission: records the challenge for the monitor *)

Record handler := mkH { h_owner : nat; h_host : nat; h_kind : kind }.

(* the credentials function given to the Auth of a registry, asked for host h.
   old = the code as it is: the host asked for is ignored.  new = confined to the registry's own host. *)
Definition creds_for (old : bool) (o : owner) (h : nat) : bool := old || Nat.eqb (o_reg o) h.

Definition is_basic (k : kind) : bool := match k with KBasic => true | _ => false end.
Fixpoint find_h (oid host : nat) (basic : bool) (hs : list handler) : option handler :=
  match hs with
  | [] => None
  | h :: r => if Nat.eqb (h_owner h) oid && Nat.eqb (h_host h) host && Bool.eqb (is_basic (h_kind h)) basic then Some h else find_h oid host basic r
  end.

(* UpdateRequest: the basic handler of the request's host answers with the credentials *)
Definition on_request (old : bool) (hs : list handler) (o : owner) (dest : nat) : list sent :=
  match find_h (o_id o) dest true hs with
  | Some _ => if creds_for old o dest && o_userpass o then [SCred (o_reg o) dest] else []
  | None => []
  end.
(* the token request of the bearer handler created for host `from`: with the identity token, else user and password *)
Definition on_token (old : bool) (hs : list handler) (o : owner) (from : nat) : list sent :=
  match find_h (o_id o) from false hs with
  | Some h => match h_kind h with
              | KBearer realm => if creds_for old o from && (o_userpass o || o_idtoken o) then [SCred (o_reg o) realm] else []
              | KBasic => []
              end
  | None => []
  end.

Definition step (old : bool) (hs : list handler) (a : act) : list handler * list sent :=
  match a with
  | AChallenge o from k =>
      (match find_h (o_id o) from (is_basic k) hs with Some _ => hs | None => hs ++ [mkH (o_id o) from k] end, [SChal from k])
  | ARequest o dest => (hs, on_request old hs o dest)
  | AToken o from => (hs, on_token old hs o from)
  end.
Fixpoint run (old : bool) (hs : list handler) (l : list act) : list sent :=
  match l with [] => [] | a :: r => let (hs', out) := step old hs a in out ++ run old hs' r end.

(* ---------- the monitor: which transmissions the property allows, given the challenges seen so far ---------- *)
Definition named (chals : list (nat * kind)) (from realm : nat) : bool :=
  existsb (fun c => Nat.eqb (fst c) from && match snd c with KBearer r => Nat.eqb r realm | KBasic => false end) chals.
Definition allowed (chals : list (nat * kind)) (s : sent) : bool :=
  match s with
  | SCred o d => Nat.eqb d o || named chals o d                     (* own host, or the token endpoint the registry itself named *)
  | STok o issuer d authed => negb authed || (Nat.eqb d o && named chals o issuer)
  | SChal _ _ => true
  end.
Fixpoint monitor (chals : list (nat * kind)) (t : list sent) : bool :=
  match t with
  | [] => true
  | SChal f k :: r => monitor ((f, k) :: chals) r
  | s :: r => allowed chals s && monitor chals r
  end.

(* the scheme of a request the client builds itself (Resp.next): https unless TLS is disabled for the host *)
Inductive tls := TLSEnabled | TLSInsecure | TLSDisabled.
Definition scheme_https (t : tls) : bool := match t with TLSDisabled => false | _ => true end.
