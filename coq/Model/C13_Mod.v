(* Model/C13_Mod.v — mod/dag.go dagPut for an image manifest: the three coupled sequences (layers, config diff_ids,
   config history with empty-layer entries) rewritten from the per-layer change marks; and the data field of an index
   entry.  The two index-driven passes of the code (insert/replace forwards, delete backwards) are rendered as one
   structural recursion over the marked layers; the rendering is validated against the code on every run
   (Corr/C13.v).  Executable; no proofs. *)
From Coq Require Import List Arith Bool.
Import ListNotations.

Inductive mark := MUnchanged | MAdded | MReplaced | MDeleted.
(* one entry of dm.layers: its mark, the descriptor to use when it was replaced or added, its uncompressed digest (0 = not recomputed) *)
Record entry := mkE { e_mark : mark; e_new : nat; e_uc : nat }.
Record hist := mkHi { h_empty : bool; h_id : nat }.
Definition NEW_HISTORY := mkHi false 0.       (* the entry written for an added layer *)

(* leading empty-layer history entries stay where they are *)
Fixpoint span_empty (hs : list hist) : list hist * list hist :=
  match hs with
  | h :: r => if h_empty h then let (a, b) := span_empty r in (h :: a, b) else ([], hs)
  | [] => ([], [])
  end.

(* layers and diff_ids travel as pairs; None = an input that the code rejects (not enough layers / history) *)
Fixpoint rew (es : list entry) (lds : list (nat * nat)) (hs : list hist) : option (list (nat * nat) * list hist) :=
  match es with
  | [] => Some ([], hs)
  | e :: es' =>
      let (pre, rest) := span_empty hs in
      match e_mark e with
      | MAdded =>
          match rew es' lds rest with
          | Some (o, h) => Some ((e_new e, e_uc e) :: o, pre ++ NEW_HISTORY :: h)
          | None => None
          end
      | m =>
          match lds, rest with
          | (l, d) :: lds', hcur :: rest' =>
              match rew es' lds' rest' with
              | Some (o, h) =>
                  match m with
                  | MDeleted => Some (o, pre ++ h)
                  | MReplaced => Some ((if Nat.eqb (e_new e) 0 then l else e_new e, if Nat.eqb (e_uc e) 0 then d else e_uc e) :: o, pre ++ hcur :: h)
                  | _ => Some ((l, d) :: o, pre ++ hcur :: h)
                  end
              | None => None
              end
          | _, _ => None
          end
      end
  end.

Definition nonempty (hs : list hist) : nat := length (filter (fun h => negb (h_empty h)) hs).
Definition kept (es : list entry) : nat := length (filter (fun e => match e_mark e with MDeleted => false | _ => true end) es).
Definition originals (es : list entry) : nat := length (filter (fun e => match e_mark e with MAdded => false | _ => true end) es).

(* the data field of an index entry: the bytes of the child it names (the code before the repair took the index's own) *)
Definition entry_data (index_bytes child_bytes : nat) (repaired : bool) : nat := if repaired then child_bytes else index_bytes.
