(* Model/C03_Copy.v — image copy (image.go imageCopyOpt / imageCopyBlob / imageSeenOrWait, blob.go BlobCopy)
   as (1) the literal wait loops, (2) an executable monitor over the events of a concurrent copy — any
   number of goroutines, any interleaving, faults and cancellation are just tasks returning errors, a killed
   process is a trace that stops — and (3) the decision ladder of BlobCopy and the seen-map.  No proofs. *)
From Coq Require Import List Arith Bool.
Import ListNotations.

Definition dg := nat.
Inductive err := ECanceled | EOther.
Definition res := option err.                 (* None = nil *)

Definition is_canceled (e : err) : bool := match e with ECanceled => true | _ => false end.

(* both wait loops of imageCopyOpt combine child results the same way; [cur] is the Go variable err and
   [rs] the results in the order they arrive on waitCh.  This is the loop as REPAIRED in /repo: a context
   cancellation is only ever replaced by another (better) error, never by nil. *)
Fixpoint collect (cur : res) (rs : list res) : res :=
  match rs with
  | [] => cur
  | r :: rs' =>
      match cur with
      | None => collect r rs'
      | Some e => match r with
                  | Some e' => if is_canceled e then collect r rs' else collect cur rs'
                  | None => collect cur rs'
                  end
      end
  end.

(* the loop as it was before the repair: `err = <-waitCh` whenever err is context.Canceled *)
Fixpoint collect_old (cur : res) (rs : list res) : res :=
  match rs with
  | [] => cur
  | r :: rs' =>
      match cur with
      | None => collect_old r rs'
      | Some e => if is_canceled e then collect_old r rs' else collect_old cur rs'
      end
  end.

(* an index entry whose media type the client does not know (image.go, default branch of the entry switch).  As
   REPAIRED: the entry is first fetched as a manifest; if the source serves it as one the image copy decides, a
   cancelled context is reported, anything else is copied as a blob.  Before the repair the image copy was tried
   and ANY error of it led to the blob copy - which succeeds for a layout source, where a manifest is also a blob file *)
Definition entry_unknown (serves_manifest ctx_cancelled : bool) (img blob : res) : res :=
  if serves_manifest then img else if ctx_cancelled then Some ECanceled else blob.
Definition entry_unknown_old (img blob : res) : res :=
  match img with None => None | Some _ => blob end.

(* ---------- the monitor ---------- *)
Inductive ev :=
| EBlob (d : dg)                                  (* blob d committed at the target (upload or mount) *)
| ERet (task : dg) (r : res)                      (* the copy task for object [task] returned r *)
| EPut (d : dg) (waited : list (dg * res))        (* manifest d pushed by digest after its child tasks reported *)
| ETag (d : dg) (waited : list (dg * res))        (* manifest d pushed under the requested tag (outermost call) *)
| EFinal.                                         (* ImageCopy starts the deferred finalFn list *)

Record mst := mkM { present : list dg; rets : list (dg * res); tag : option dg; tagged : bool; final : bool }.

Definition memd (d : dg) (l : list dg) : bool := existsb (Nat.eqb d) l.
Definition res_eqb (a b : res) : bool :=
  match a, b with
  | None, None => true
  | Some ECanceled, Some ECanceled => true
  | Some EOther, Some EOther => true
  | _, _ => false
  end.
Definition mem_ret (c : dg) (r : res) (l : list (dg * res)) : bool :=
  existsb (fun p => Nat.eqb (fst p) c && res_eqb (snd p) r) l.

(* [refs d]: the objects the copy of manifest d is responsible for (index entries, config, hosted layers,
   and - when requested - referrers); blobs have none *)
Section Monitor.
  Variable refs : dg -> list dg.

  Definition waited_ok (s : mst) (d : dg) (waited : list (dg * res)) : bool :=
    forallb (fun c => memd c (map fst waited)) (refs d) &&
    forallb (fun p => mem_ret (fst p) (snd p) (rets s)) waited &&
    match collect None (map snd waited) with None => true | Some _ => false end.

  Definition mstep (s : mst) (e : ev) : option mst :=
    match e with
    | EBlob d =>
        if (match refs d with [] => true | _ => false end) && (negb (tagged s) || final s)
        then Some (mkM (d :: present s) (rets s) (tag s) (tagged s) (final s)) else None
    | ERet c r =>
        match r with
        | None => if memd c (present s) then Some (mkM (present s) ((c, r) :: rets s) (tag s) (tagged s) (final s)) else None
        | Some _ => Some (mkM (present s) ((c, r) :: rets s) (tag s) (tagged s) (final s))
        end
    | EPut d w =>
        if waited_ok s d w && (negb (tagged s) || final s)
        then Some (mkM (d :: present s) (rets s) (tag s) (tagged s) (final s)) else None
    | ETag d w =>
        if waited_ok s d w && negb (tagged s)
        then Some (mkM (d :: present s) (rets s) (Some d) true (final s)) else None
    | EFinal => Some (mkM (present s) (rets s) (tag s) (tagged s) true)
    end.

  Fixpoint mrun (s : mst) (t : list ev) : option mst :=
    match t with
    | [] => Some s
    | e :: t' => match mstep s e with Some s' => mrun s' t' | None => None end
    end.

  Definition minit (tgt0 : list dg) (tag0 : option dg) : mst := mkM tgt0 [] tag0 false false.

  (* everything a manifest names is there *)
  Definition closed (p : list dg) : Prop := forall d, In d p -> forall c, In c (refs d) -> In c p.

  Fixpoint reach (n : nat) (d : dg) : list dg :=
    match n with
    | O => [d]
    | S n' => d :: flat_map (reach n') (refs d)
    end.
End Monitor.

(* ---------- BlobCopy: the decision ladder ---------- *)
Inductive bact := AHeadTgt | AMount | AGetSrc | AUpload.
Definition blob_copy (same_repo exists_tgt same_registry mount_granted inline : bool) : list bact :=
  (* inline: the descriptor carries data that verifies against its digest and size (incl. the empty blob):
     RegClient.BlobGet then serves it without asking the source *)
  let transfer := if inline then [AUpload] else [AGetSrc; AUpload] in
  if same_repo then []
  else if exists_tgt then [AHeadTgt]
  else if same_registry && mount_granted then [AHeadTgt; AMount]
  else if same_registry then [AHeadTgt; AMount] ++ transfer
  else AHeadTgt :: transfer.

(* ---------- imageSeenOrWait: one owner per key; an entry is forgotten only when its owner failed ---------- *)
Inductive sev := SAsk (k : nat) | SDone (k : nat) (ok : bool).
Inductive sans := Owner | Wait | Known (ok : bool).
Record seen := mkSeen { owners : list nat; finished : list nat }.
Definition sstep (s : seen) (e : sev) : seen * option sans :=
  match e with
  | SAsk k =>
      if memd k (finished s) then (s, Some (Known true))
      else if memd k (owners s) then (s, Some Wait)
      else (mkSeen (k :: owners s) (finished s), Some Owner)
  | SDone k ok =>
      let o := filter (fun x => negb (Nat.eqb x k)) (owners s) in
      if ok then (mkSeen o (k :: finished s), None) else (mkSeen o (finished s), None)
  end.
Fixpoint owner_count (k : nat) (s : seen) (t : list sev) : nat :=
  match t with
  | [] => 0
  | e :: t' =>
      let '(s', a) := sstep s e in
      (match e, a with SAsk k', Some Owner => if Nat.eqb k k' then 1 else 0 | _, _ => 0 end) + owner_count k s' t'
  end.
