(* Model/C17_PQueue.v — internal/pqueue.Queue as an executable monitor.  The events are the
   mutex-protected critical sections of Acquire (grant | enqueue), TryAcquire, release (with the priority
   function's answer as an arbitrary index, clamped as coded) and the ctx.Done branch of a waiter (remove
   itself | slot was handed over concurrently: pass it on).  Any number of goroutines: a goroutine is just
   the id on its events.  No proofs here. *)
From Coq Require Import List Arith Bool.
Import ListNotations.

Definition id := nat.
Record q := mkQ { qmax : nat; active : list id; queued : list id }.

Fixpoint remove1 (x : id) (l : list id) : list id :=   (* slices.Index + slices.Delete: first occurrence *)
  match l with
  | [] => []
  | y :: l' => if Nat.eqb x y then l' else y :: remove1 x l'
  end.
Definition mem (x : id) (l : list id) : bool := existsb (Nat.eqb x) l.

Fixpoint remove_at {A} (i : nat) (l : list A) : list A :=
  match i, l with
  | _, [] => []
  | 0, _ :: l' => l'
  | S i', y :: l' => y :: remove_at i' l'
  end.

Inductive event :=
| Acq (x : id)               (* Acquire: critical section under q.mu *)
| TryAcq (x : id)
| Rel (x : id) (pick : nat)  (* release(prev = x); pick = what q.next returned (ignored when <= 1 queued) *)
| Cancel (x : id) (pick : nat). (* waiter x took the ctx.Done branch *)

Inductive outcome := Granted | Enqueued | Refused | Released (woken : option id) | Removed.

(* release(prev) *)
Definition release (s : q) (x : id) (pick : nat) : q * option id :=
  let act := if mem x (active s) then remove1 x (active s) else active s in
  match queued s with
  | [] => (mkQ (qmax s) act [], None)
  | _ =>
      if qmax s <=? length act then (mkQ (qmax s) act (queued s), None)
      else
        let i := if 1 <? length (queued s) then Nat.min pick (length (queued s) - 1) else 0 in
        match nth_error (queued s) i with
        | Some w => (mkQ (qmax s) (act ++ [w]) (remove_at i (queued s)), Some w)
        | None => (mkQ (qmax s) act (queued s), None)
        end
  end.

Definition step (s : q) (e : event) : q * outcome :=
  match e with
  | Acq x =>
      if length (active s) + length (queued s) <? qmax s
      then (mkQ (qmax s) (active s ++ [x]) (queued s), Granted)
      else (mkQ (qmax s) (active s) (queued s ++ [x]), Enqueued)
  | TryAcq x =>
      if length (active s) + length (queued s) <? qmax s
      then (mkQ (qmax s) (active s ++ [x]) (queued s), Granted)
      else (s, Refused)
  | Rel x pick => let '(s', w) := release s x pick in (s', Released w)
  | Cancel x pick =>
      if mem x (queued s) then (mkQ (qmax s) (active s) (remove1 x (queued s)), Removed)
      else let '(s', w) := release s x pick in (s', Released w)
  end.

(* which events the code can perform in a state: ids are unique per call; only a holder releases; only a
   waiter (still queued, or already handed the slot) takes the ctx.Done branch *)
Definition enabled (s : q) (e : event) : bool :=
  match e with
  | Acq x | TryAcq x => negb (mem x (active s)) && negb (mem x (queued s))
  | Rel x _ => mem x (active s)
  | Cancel x _ => mem x (queued s) || mem x (active s)
  end.

Fixpoint run (s : q) (es : list event) : option q :=
  match es with
  | [] => Some s
  | e :: es' => if enabled s e then run (fst (step s e)) es' else None
  end.

Definition init (max : nat) : q := mkQ (if max =? 0 then 1 else max) [] [].

(* ---------- AcquireMulti: the bookkeeping of one attempt (wait on queue lockI, try the others in index order, back off) ---------- *)
(* the inner loop: indices i..n-1 in order, skipping lockI; try i = whether TryAcquire succeeds *)
Fixpoint try_rest (fuel i n lockI : nat) (try : nat -> bool) (acq : list nat) : list nat * option nat :=
  match fuel with
  | O => (acq, None)
  | S f =>
      if n <=? i then (acq, None)
      else if Nat.eqb i lockI then try_rest f (S i) n lockI try acq
      else if try i then try_rest f (S i) n lockI try (acq ++ [i])
      else (acq, Some i)
  end.
(* one attempt: what was acquired (in order) and, on failure, the index that could not be had *)
Definition attempt (n lockI : nat) (try : nat -> bool) : list nat * option nat := try_rest n 0 n lockI try [lockI].
(* the cleanup after a failure at index i: the blocking queue if it lies beyond i, then i-1 .. 0 *)
Definition cleanup (lockI i : nat) : list nat := (if i <? lockI then [lockI] else []) ++ rev (seq 0 i).

