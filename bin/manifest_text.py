HOOK_COMMITS = []
PENDING = {}
TEXT = {
 "C16": {
  "technique": "Coq proof (strict-partial-order of Better + linear-scan invariant by induction) + vm_compute differential against types/platform",
  "text": "Theorems in coq/Props/C16.v, for all hosts, all entry lists of any length and arbitrary strings: the scan's result is Compatible; found whenever a compatible entry exists (host names an architecture); no listed entry is Better than the result; two listings of the same entries give tied results; an exact Match beats any merely compatible entry; Better is transitive and asymmetric (including the odd semverCmp); normalize is idempotent and maps the documented aliases. The model (Model/C16_Platform.v) is a transliteration of normalize/Compatible/Match/Better/semverCmp/variantVer/Parse/String and DescriptorListSearch; each run compares it with the Go code on ~3000 (quick) / 60000 (thorough) generated searches, triples and platform strings, and evaluates property oracles (runnable, none-better, exact-preferred, permutation independence, parse/print fixpoint) on the implementation.",
  "note": "Trusted: Coq kernel + vm_compute; the Gallina transliteration (tied by the differential only on generated inputs); Base/StrX models of strconv.Atoi/strings.Split/path.Join; harness generators. os.features/features lists modelled but not generated; ',osver=' parse arguments exercised on the implementation only.",
 },
 "C15": {
  "technique": "Coq proof (accepted => grammar; frame lemmas) over hand recognisers + vm_compute differential against ref.New/CommonName on generated, mutated and arbitrary strings",
  "text": "coq/Props/C15.v proves, for every input string, that whatever the parser model accepts has a known scheme, a tag and digest of the documented shape, and for registry references a non-empty lower-case repository, a registry and a tag or digest (the 'malformed names are rejected' half), and that SetTag/SetDigest/AddDigest change only tag/digest. The model (hand recognisers for refRE, ocidirRE, schemeRE, the localhost/Docker-Hub normalisation, CommonName) is compared on every run with ref.New on 5 500 (quick) / 220 000 (thorough) strings: accept/reject and all six components plus CommonName. The round-trip clause is decided per accepted string by the implementation-side oracle (print, re-parse, compare components) - that clause is `_partial`: not yet a Coq theorem.",
  "note": "Trusted: Coq kernel; the recognisers as a reading of the regular expressions (checked differentially only); generators. F-C15a (ocifile:// accepted but printed as \"\") was reproduced by this check and repaired in /repo (fix: commit).",
 },
}
