HOOK_COMMITS = []
PENDING = {}
TEXT = {
 "C16": {
  "technique": "Coq proof (strict-partial-order of Better + linear-scan invariant by induction) + vm_compute differential against types/platform",
  "text": "Theorems in coq/Props/C16.v, for all hosts, all entry lists of any length and arbitrary strings: the scan's result is Compatible; found whenever a compatible entry exists (host names an architecture); no listed entry is Better than the result; two listings of the same entries give tied results; an exact Match beats any merely compatible entry; Better is transitive and asymmetric (including the odd semverCmp); normalize is idempotent and maps the documented aliases. The model (Model/C16_Platform.v) is a transliteration of normalize/Compatible/Match/Better/semverCmp/variantVer/Parse/String and DescriptorListSearch; each run compares it with the Go code on ~3000 (quick) / 60000 (thorough) generated searches, triples and platform strings, and evaluates property oracles (runnable, none-better, exact-preferred, permutation independence, parse/print fixpoint) on the implementation.",
  "note": "Trusted: Coq kernel + vm_compute; the Gallina transliteration (tied by the differential only on generated inputs); Base/StrX models of strconv.Atoi/strings.Split/path.Join; harness generators. os.features/features lists modelled but not generated; ',osver=' parse arguments exercised on the implementation only.",
 },
}
