# per-property configuration of bin/check
COMMON_ASSUME = [
    "the proofs are about the hand-written Gallina model; the tie to /repo is the per-run correspondence (model evaluated by vm_compute on the cases the Go implementation just ran)",
]
PROPS = {
    "C16": {
        "props": "Props/C16.v", "corr": ["Corr/C16.v"],
        "trusted": ["model of types/platform + DescriptorListSearch platform scan (Model/C16_Platform.v); strconv.Atoi, strings.Split, path.Join modelled by Base/StrX.v"],
        "assumptions": COMMON_ASSUME + ["feature lists (os.features/features) are modelled but not generated; Parse's ',osver=' argument syntax is exercised on the implementation only"],
    },
    "C15": {
        "props": "Props/C15.v", "corr": ["Corr/C15.v"],
        "trusted": ["hand-written recognisers standing for the anchored regular expressions refRE/ocidirRE/schemeRE (Model/C15_Ref.v); Go regexp leftmost-first semantics is not modelled, the recognisers are validated differentially on every run"],
        "assumptions": COMMON_ASSUME + ["the print/re-parse round trip is checked on every accepted string by the implementation-side oracle; its Coq proof is not finished (DESIGN.md C15)"],
    },
    "C20": {
        "props": "Props/C20.v", "corr": ["Corr/C20.v"], "gen": ["digestpaths"], "cli": ["regctl"],
        "gen_theorems": ["C20_all_digest_paths_validated over Gen/DigestPathSites.v"],
        "trusted": ["model of Go path.Clean / filepath.Join (Linux) on byte lists (Model/C20_Paths.v), compared with the Go standard library on every run",
                    "translator extract/digestpaths.go (go/ast shape matching of .Encoded()/.Hex()/tarOCILayoutDescPath sites and preceding Validate() calls)",
                    "go-digest Validate modelled for the registered algorithms sha256/sha384/sha512"],
        "assumptions": COMMON_ASSUME + ["containment is lexical: symlinks already present inside the output directory are excluded by the property's own text",
                    "tar link entries are not materialised by archive.Extract (checked dynamically: no link appears)"],
    },
    "C01": {
        "props": "Props/C01.v", "corr": ["Corr/C01.v"],
        "trusted": ["model of LimitRead.Read and BReader.Read/Seek (Model/C01_BlobRead.v); io.TeeReader and digest.Digester by their contracts (every byte returned is hashed)",
                    "the resume layer (reghttp.Resp.Read/next) is NOT modelled: soundness is proved for an arbitrary underlying reader, so it does not depend on it; it is exercised end-to-end by the registry oracle"],
        "assumptions": COMMON_ASSUME + ["the theorem takes the hash function as an arbitrary parameter (no collision assumption is needed for soundness)"],
    },
    "C17": {
        "props": "Props/C17.v", "corr": ["Corr/C17.v"],
        "trusted": ["monitor of internal/pqueue.Queue (Model/C17_PQueue.v): events are the critical sections under q.mu; sync.Mutex, channels and the select statement of the Go runtime are not modelled",
                    "hooks in /repo under build tag verif: internal/pqueue/verif_hook.go (snapshot), verifhook/ (bridge)"],
        "assumptions": COMMON_ASSUME + ["liveness (no deadlock) is proved as: a waiter implies a holder whose release is enabled and wakes exactly one waiter; scheduler fairness and that holders eventually release are assumed",
                    "AcquireMulti's loop is not a Coq model: per-queue theorems cover its primitive calls; its back-off behaviour (nothing held while blocked, completion, no lost slot) is decided by scripted and random runs of the implementation"],
    },
    "C06": {
        "props": "Props/C06.v", "corr": ["Corr/C06.v"],
        "trusted": ["model of the ocidir index functions (Model/C06_Tags.v): indexSet, indexGet, tagDelete, ManifestDelete's index loop, TagList; encoding/json and the file system are not modelled",
                    "memreg (harness registry model) for the registry-side runs"],
        "assumptions": COMMON_ASSUME + ["the refinement theorem is for tags without ':' (the reference grammar) and layouts with at most one entry per tag; frame and removes-all theorems hold for ANY index incl. foreign ones",
                    "linearizability of concurrent operations rests on o.mu serialising every index read-modify-write; checked by concurrent pushes on the implementation, not proved"],
    },
    "C12": {
        "props": "Props/C12.v", "corr": ["Corr/C12.v"], "gen": ["reqsites", "statusclass"],
        "gen_theorems": ["C12_writes_skip_mirrors over Gen/ReqSites.v", "classify / C12_transient_codes over Gen/StatusClass.v"],
        "trusted": ["model of the host loop of reghttp.Resp.next (Model/C12_Retry.v); time, sleeps and the HTTP client are not modelled",
                    "translator extract/reqsites.go: reghttp.Req composite literals under scheme/reg (Method, NoMirrors, DirectURL, IgnoreErr) and the switch statusCode of Resp.next",
                    "memreg/memrt multi-host topology in the harness"],
        "assumptions": COMMON_ASSUME + ["the backoff delay (>= configured / Retry-After) is exercised only through real sleeps of 1-4 ms; lower bounds on gaps are not asserted in quick runs",
                    "the documented host order (highest priority first) is refuted for the comparator as coded: known finding F-C12a",
                    "upload-session progress (chunked PATCH loop) is covered under C05"],
    },
    "C19": {
        "props": "Props/C19.v", "gen": ["sandbox"], "cli": ["regbot"],
        "gen_theorems": ["C19_all_mutating_gated over Gen/SandboxFns.v"],
        "trusted": ["translator extract/sandbox.go: methods of cmd/regbot/sandbox.Sandbox, the s.rc.<Method> calls in each, the classification of RegClient methods into state-changing / read-only (an unknown method makes the translator fail), and the top-level `if s.dryRun { ...; return }` gate preceding a call",
                    "the model equates a script's effect with the sequence of API functions it calls (gopher-lua and control flow are not modelled)",
                    "the real regbot binary, a loopback HTTP server backed by memreg, directory snapshots"],
        "assumptions": COMMON_ASSUME + ["image.exportTar writes the tar file the script names; that is neither a registry nor an OCI layout and is not counted as a mutation"],
    },
    "C05": {
        "props": "Props/C05.v", "corr": ["Corr/C05.v"],
        "trusted": ["model of scheme/reg blobPutUploadChunked (Model/C05_Upload.v) incl. the slice-capacity shrink on re-slice; the registry session is the transition system written there (in-order PATCH appends, out-of-order PATCH answers 416 + Range; the closing PUT verifies the digest of what the session holds)",
                    "memreg + scripted hooks standing for a conforming registry; BlobPut's mount / single-request phase is exercised on the implementation only"],
        "assumptions": COMMON_ASSUME + ["`success for every blob size and chunking against a conforming registry` (termination of the loop with Done) is NOT yet a Coq theorem (C05_conforming_succeeds, partial): it is decided per run by the oracle conforming-upload-failed over boundary lengths and scripts",
                    "a registry that stores the complete body of a single-request PUT and still reports failure makes the chunked fall-back abort (chunkStart != bufStart); treated as non-conforming, see DESIGN.md"],
    },
}
