# per-property configuration of bin/check
COMMON_ASSUME = [
    "the proofs are about the hand-written Gallina model; the tie to /repo is the per-run correspondence (model evaluated by vm_compute on the cases the Go implementation just ran)",
]
PROPS = {
    "C16": {
        "props": "Props/C16.v", "corr": ["Corr/C16.v"],
        "trusted": ["model of types/platform + DescriptorListSearch platform scan (Model/C16_Platform.v); strconv.Atoi, strings.Split, path.Join modelled by Base/StrX.v"],
        "assumptions": COMMON_ASSUME + ["feature lists (os.features/features) are modelled but not generated; Parse's ',osver=' argument syntax is exercised on the implementation only"],
    },
}
